package main

// Pool-interleaving stream: Evidence events arrive at the builder's pool (Staking.evidences) before, DURING and after
// the builder's lock region (slashing), in every order the mutex allows.  "During" is made deterministic: the module's
// BLS manager is wrapped (hook VerifSetBlsManager) so that the k-th key/signature decode made while processEvidences
// runs performs the arrival with VerifTryAddEvidence — what Start's event loop does, non-blocking: if the mutex is held
// the arrival waits and is appended right after the seal returns (as the blocked event loop would), if it is free the
// evidence is appended on the spot.  Each seal is a real block build (chainkit Begin/Finish, EndBlock isSeal=true) on a
// fresh state at the same height (a re-proposal); nothing is imported.
//
// Compared with the Lean pool model (driver op POOL): final pool (order included) and the confirmed lists.
// Oracle (model-free): every valid in-time evidence that arrived is in the SlashData of some seal or still pooled at the
// end — never lost; nothing is confirmed by two seals.
//
// Case format (replay header "POOL"):  E lines (the universe, referred to by index; a trailing "!" marks must-keep),
// then one line  SCHED tok...  with tok = a<i> (arrival) | seal[/k:i]...  (seal with arrival of i at the k-th BLS decode)

import (
	"fmt"
	"strconv"
	"strings"

	"github.com/youchainhq/go-youchain/bls"
	"github.com/youchainhq/go-youchain/rlp"
	"github.com/youchainhq/go-youchain/staking"

	"verifharness/internal/vh"
)

type trigBls struct {
	bls.BlsManager
	n    int
	fire map[int]func()
}

func (t *trigBls) tick() {
	t.n++
	if f := t.fire[t.n]; f != nil {
		delete(t.fire, t.n)
		f()
	}
}
func (t *trigBls) DecPublicKey(b []byte) (bls.PublicKey, error) {
	t.tick()
	return t.BlsManager.DecPublicKey(b)
}
func (t *trigBls) DecSignature(b []byte) (bls.Signature, error) {
	t.tick()
	return t.BlsManager.DecSignature(b)
}

func idxOf(univ []*evInfo, e staking.Evidence) int {
	for i, u := range univ {
		if u.ev.Type == e.Type && string(u.ev.Data) == string(e.Data) {
			return i
		}
	}
	return -1
}

func (s *scenario) poolCase(drv *vh.Driver, lines []string, dist func(string)) ([]failure, error) {
	var univ []*evInfo
	var must []bool
	var sched []string
	for _, l := range lines {
		f := strings.Fields(l)
		switch {
		case len(f) > 0 && f[0] == "E":
			m := f[len(f)-1] == "!"
			if m {
				f = f[:len(f)-1]
			}
			e, err := buildEvidence(f)
			if err != nil {
				return nil, err
			}
			if idxOf(univ, e.ev) >= 0 {
				return nil, fmt.Errorf("pool case: duplicate blob in the universe")
			}
			univ, must = append(univ, e), append(must, m)
		case len(f) > 0 && f[0] == "SCHED":
			sched = f[1:]
		}
	}
	k := s.k
	st0, _, err := k.A.NextState()
	if err != nil {
		return nil, err
	}
	// model input
	ml := []string{"RESET", s.cfgLine()}
	ml = append(ml, s.setLines...)
	ml = append(ml, stateLines(st0, s.yp)...)
	for _, e := range univ {
		ml = append(ml, e.model)
	}
	for _, l := range ml {
		resp, err := drv.Ask(l)
		if err != nil {
			return nil, err
		}
		if resp != "ok" {
			return nil, fmt.Errorf("driver refused %q: %s", l, resp)
		}
	}

	sk := k.A.Staking
	sk.VerifClearPool()
	tb := &trigBls{}
	tb.BlsManager = sk.VerifSetBlsManager(tb)
	defer func() {
		sk.VerifSetBlsManager(tb.BlsManager)
		sk.VerifClearPool()
	}()

	var fs []failure
	var msched []string
	arrived := map[int]bool{}
	var confirmedAll []int
	confirmedIn := map[int]int{}
	nseal := 0
	for _, tok := range sched {
		if strings.HasPrefix(tok, "a") {
			i, err := strconv.Atoi(tok[1:])
			if err != nil || i < 0 || i >= len(univ) {
				return nil, fmt.Errorf("bad token %q", tok)
			}
			sk.VerifAddEvidence(univ[i].ev)
			arrived[i] = true
			msched = append(msched, tok)
			continue
		}
		if !strings.HasPrefix(tok, "seal") {
			return nil, fmt.Errorf("bad token %q", tok)
		}
		nseal++
		tb.n, tb.fire = 0, map[int]func(){}
		var during, deferred, unfired []int
		fired := map[int]bool{}
		for _, p := range strings.Split(tok, "/")[1:] {
			var at, i int
			if _, err := fmt.Sscanf(p, "%d:%d", &at, &i); err != nil || i < 0 || i >= len(univ) || at < 1 {
				return nil, fmt.Errorf("bad token %q", tok)
			}
			unfired = append(unfired, i)
			ii := i
			tb.fire[at] = func() {
				fired[ii] = true
				during = append(during, ii)
				if sk.VerifTryAddEvidence(univ[ii].ev) {
					dist("pool:arrival-during-seal:mutex-free")
				} else {
					deferred = append(deferred, ii) // the event loop blocks on the mutex
					dist("pool:arrival-during-seal:blocked")
				}
			}
		}
		w, err := k.Begin(s.vals[0].MainAddr())
		if err != nil {
			return nil, err
		}
		b, err := w.Finish(nil)
		if err != nil {
			return nil, err
		}
		tb.fire = map[int]func(){}
		if b.Panic != "" {
			return []failure{{"oracle", "", "sealing with this evidence pool panics: " + b.Panic}}, nil
		}
		msched = append(msched, "b")
		for _, i := range during {
			msched = append(msched, fmt.Sprintf("a%d", i))
			arrived[i] = true
		}
		msched = append(msched, "e")
		for _, i := range deferred {
			sk.VerifAddEvidence(univ[i].ev) // the blocked event loop gets the mutex now
		}
		for _, i := range unfired {
			if !fired[i] { // processing made fewer decodes: the event arrives right after the seal
				sk.VerifAddEvidence(univ[i].ev)
				arrived[i] = true
				msched = append(msched, fmt.Sprintf("a%d", i))
				dist("pool:arrival-after-seal")
			}
		}
		var conf []staking.Evidence
		if sd := b.Block.Header().SlashData; len(sd) > 0 {
			if err := rlp.DecodeBytes(sd, &conf); err != nil {
				fs = append(fs, failure{"oracle", "", "the builder wrote SlashData that does not decode"})
			}
		}
		for _, e := range conf {
			i := idxOf(univ, e)
			confirmedAll = append(confirmedAll, i)
			if prev, dup := confirmedIn[i]; dup && prev != nseal {
				fs = append(fs, failure{"oracle", "", fmt.Sprintf("evidence %d is confirmed by two seals (%d and %d): it stayed in the pool after being written into SlashData", i, prev, nseal)})
			}
			confirmedIn[i] = nseal
		}
		dist(fmt.Sprintf("pool:seal-confirmed:%d", len(conf)))
	}
	var pool []int
	inPool := map[int]bool{}
	for _, e := range sk.VerifPoolEvidences() {
		i := idxOf(univ, e)
		pool = append(pool, i)
		inPool[i] = true
	}
	goOut := fmt.Sprintf("POOL [%s] C [%s]", ints(pool), ints(confirmedAll))
	lo, err := drv.Ask(fmt.Sprintf("POOL %d %d %s", s.head, s.head+1, strings.Join(msched, " ")))
	if err != nil {
		return nil, err
	}
	leanOut := lo
	if i := strings.Index(lo, " D ["); i >= 0 && strings.HasPrefix(lo, "ok ") {
		leanOut = lo[3:i]
	}
	if goOut != leanOut {
		fs = append(fs, failure{"correspondence", "", "evidence pool after the schedule [" + strings.Join(msched, " ") + "] differs\n  go:   " + goOut + "\n  lean: " + leanOut})
	}
	targetOf := func(e *evInfo) string {
		if e.ds == nil || e.ds.Round != s.head {
			return ""
		}
		set, _, ok := s.expectedLookBack(e.ds.Round, e.ds.VoteType == 5)
		if !ok || int(e.ds.SignerIdx) >= len(set) {
			return ""
		}
		return string(set[e.ds.SignerIdx].Bytes())
	}
	for i := range univ {
		if arrived[i] && must[i] && !inPool[i] {
			// once per block: another evidence against the same validator was confirmed instead
			other := false
			for j := range univ {
				if _, ok := confirmedIn[j]; ok && j != i && targetOf(univ[j]) != "" && targetOf(univ[j]) == targetOf(univ[i]) {
					other = true
				}
			}
			if _, ok := confirmedIn[i]; !ok && !other {
				fs = append(fs, failure{"oracle", "", fmt.Sprintf("valid in-time evidence %d reached the builder's pool (schedule %s) and is neither in the SlashData of a sealed block nor pooled any more: the equivocation goes unpunished", i, strings.Join(msched, " "))})
			}
		}
	}
	return fs, nil
}

// genPoolCase: 3-6 distinct evidences (valid equivocations against distinct validators, future-round ones that must stay
// pending, junk) and a schedule with two or three seals.
func genPoolCase(r *vh.RNG, s *scenario, dist func(string)) []string {
	set, keys, _ := s.expectedLookBack(s.head, false)
	var usable []int
	for p := range set {
		if keys[p] != "-" && keys[p] != "99" {
			usable = append(usable, p)
		}
	}
	for i := len(usable) - 1; i > 0; i-- {
		j := r.Intn(i + 1)
		usable[i], usable[j] = usable[j], usable[i]
	}
	n := r.Range(3, 6)
	var lines []string
	seen := map[string]bool{}
	for len(lines) < n {
		var l string
		mustKeep := false
		switch {
		case len(usable) > 0 && r.Chance(55):
			p := usable[0]
			usable = usable[1:]
			var key int
			fmt.Sscan(keys[p], &key)
			ri := uint32(r.Intn(3))
			a, b := 1+r.Intn(5), 6+r.Intn(5)
			kind := 2 + r.Intn(2)
			l = fmt.Sprintf("E doublesignv5 S %d %d %d %d 2 %x S:%d:%x:%d %x S:%d:%x:%d", s.head, ri, p, kind,
				hashN(a), key, payloadBytes(hashN(a), s.head, ri), kind, hashN(b), key, payloadBytes(hashN(b), s.head, ri), kind)
			mustKeep = true
			dist("pool:ev:valid-equivocation")
		case r.Chance(45):
			rd := s.head + uint64(1+r.Intn(3))
			a, b := 1+r.Intn(5), 6+r.Intn(5)
			l = fmt.Sprintf("E doublesignv5 S %d 0 %d 2 2 %x S:0:%x:2 %x S:0:%x:2", rd, r.Intn(4), hashN(a), payloadBytes(hashN(a), rd, 0), hashN(b), payloadBytes(hashN(b), rd, 0))
			mustKeep = true
			dist("pool:ev:future-round")
		default:
			l, _ = genEvidence(r, s, s.head)
			dist("pool:ev:generated")
		}
		e, err := buildEvidence(strings.Fields(l))
		if err != nil {
			continue
		}
		id := e.ev.Type + string(e.ev.Data)
		if seen[id] {
			continue
		}
		seen[id] = true
		if mustKeep {
			l += " !"
		}
		lines = append(lines, l)
	}
	order := make([]int, n)
	for i := range order {
		order[i] = i
	}
	for i := n - 1; i > 0; i-- {
		j := r.Intn(i + 1)
		order[i], order[j] = order[j], order[i]
	}
	next := 0
	take := func() int { i := order[next]; next++; return i }
	var sched []string
	nseals := r.Range(2, 3)
	for sl := 0; sl < nseals; sl++ {
		for next < n && r.Chance(45) {
			sched = append(sched, fmt.Sprintf("a%d", take()))
		}
		tok := "seal"
		used := map[int]bool{}
		for next < n && r.Chance(60) {
			at := r.Range(1, 7)
			if used[at] {
				continue
			}
			used[at] = true
			tok += fmt.Sprintf("/%d:%d", at, take())
		}
		sched = append(sched, tok)
	}
	for next < n && r.Bool() {
		sched = append(sched, fmt.Sprintf("a%d", take()))
	}
	if r.Bool() {
		sched = append(sched, "seal")
	}
	return append(lines, "SCHED "+strings.Join(sched, " "))
}
