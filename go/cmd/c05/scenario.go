package main

// Scenario: one deterministic solo chain (chainkit) whose validators carry real BLS keys, grown past two staking
// periods so that the POS look-back set (header r-16) and the certificate look-back set (genesis) differ in
// membership and order.  Nothing here is random.

import (
	"bytes"
	"encoding/hex"
	"fmt"
	"math/big"
	"strings"

	"github.com/youchainhq/go-youchain/bls"
	"github.com/youchainhq/go-youchain/common"
	"github.com/youchainhq/go-youchain/core/state"
	"github.com/youchainhq/go-youchain/core/types"
	"github.com/youchainhq/go-youchain/crypto"
	"github.com/youchainhq/go-youchain/params"
	"github.com/youchainhq/go-youchain/rlp"
	"github.com/youchainhq/go-youchain/staking"

	"verifharness/cmd/c07/chainkit"
	"verifharness/internal/vh"
)

const nBlsKeys = 8

var (
	blsMgr  = bls.NewBlsManager()
	blsSK   []bls.SecretKey
	blsPub  [][]byte
	sigMemo = map[string][]byte{} // "k:msghex" -> signature bytes (BLS signing is deterministic)
	sigBack = map[string]string{} // signature bytes hex -> "S:k:msghex"
)

func initBLS() {
	if blsSK != nil {
		return
	}
	for i := 0; i < nBlsKeys; i++ {
		kb := crypto.Keccak256([]byte(fmt.Sprintf("c05-bls-%d", i)))
		kb[0] &= 0x3f
		kb[31] &= 0x3f
		sk, err := blsMgr.DecSecretKey(kb)
		if err != nil {
			panic(err)
		}
		pk, err := sk.PubKey()
		if err != nil {
			panic(err)
		}
		c := pk.Compress()
		blsSK = append(blsSK, sk)
		blsPub = append(blsPub, append([]byte{}, c.Bytes()...))
	}
}

// blsSign returns the real BLS signature of msg under key k and remembers it for the symbolic view.
func blsSign(k int, msg []byte) []byte {
	id := fmt.Sprintf("%d:%x", k, msg)
	if s, ok := sigMemo[id]; ok {
		return s
	}
	c := blsSK[k].Sign(msg).Compress()
	s := append([]byte{}, c.Bytes()...)
	sigMemo[id] = s
	sigBack[hex.EncodeToString(s)] = "S:" + id
	return s
}

// keyID maps BLS public key bytes to the model's key identity ("-" = undecodable).
func keyID(pub []byte) string {
	for i, p := range blsPub {
		if bytes.Equal(p, pub) {
			return fmt.Sprint(i)
		}
	}
	if _, err := blsMgr.DecPublicKey(pub); err == nil {
		return "99" // decodable but not ours (never signs anything)
	}
	return "-"
}

// payloadBytes is the harness' own statement of the signed payload (voter.go signVote).
func payloadBytes(hash []byte, round uint64, idx uint32) []byte {
	out := append([]byte{}, hash...)
	out = append(out, new(big.Int).SetUint64(round).Bytes()...)
	return append(out, byte(idx>>24), byte(idx>>16), byte(idx>>8), byte(idx))
}

type scenario struct {
	k        *chainkit.Kit
	yp       *params.YouParams
	vals     []chainkit.ValSpec // every validator that ever exists, by scenario index
	valBls   []int              // BLS key index per validator, -1 = undecodable key
	head     uint64
	setLines []string                    // SET lines (look-back change points) for the model
	sets     map[uint64][]common.Address // validator order per header number
	setKeys  map[uint64][]string
}

// disagreeError: a block built by the real builder is not accepted by the nodes that import it (its own included), or
// building it panics.  That is the property's "accepted by block builder and block validator alike" failing, not a
// harness problem; callers turn it into an oracle failure.
type disagreeError struct{ what string }

func (e *disagreeError) Error() string { return e.what }

const scenarioTries = 20

// scenarioOrFail builds the scenario chain; builder/importer disagreement while building it is reported as an oracle
// failure with a replay that re-runs the set-up (SCENARIO <blocks> <tiny>), and the build is retried (disagreements of
// this kind come from Go map iteration order and do not happen every time).
func scenarioOrFail(c *vh.Ctx, blocks int, tiny bool) (*scenario, error) {
	reported := false
	for try := 0; try < scenarioTries; try++ {
		sc, err := newScenario(blocks, tiny)
		if err == nil {
			return sc, nil
		}
		de, ok := err.(*disagreeError)
		if !ok {
			return nil, err
		}
		if !reported && c != nil {
			reported = true
			reportScenarioDisagreement(c, blocks, tiny, de.what)
		}
	}
	return nil, nil // every try disagreed: already reported, no scenario
}

var scenarioReports = 0

func reportScenarioDisagreement(c *vh.Ctx, blocks int, tiny bool, what string) {
	scenarioReports++
	c.Res.Dist("failure:scenario:builder-importer-disagree")
	if scenarioReports > 2 {
		return
	}
	t := 0
	if tiny {
		t = 1
	}
	rp := vh.WriteReplay(c.ReplayDir, "C05", fmt.Sprintf("scenario-disagree-%d-%d", scenarioReports, c.Seed), c.Seed,
		[]string{"builder and importer disagree on a block of the scenario chain (period-end penalties run takePenalty too)",
			fmt.Sprintf("nondeterministic by nature (Go map order): `replay` re-builds the scenario up to %d times", scenarioTries), what},
		[]string{fmt.Sprintf("SCENARIO %d %d", blocks, t)})
	c.Res.Fail("oracle", "", "builder/importer disagree on a block carrying a penalty: "+what, rp)
}

func you(n int64) *big.Int { return new(big.Int).Mul(big.NewInt(n), big.NewInt(params.YOU)) }

func encStaking(action staking.ActionType, payload interface{}) []byte {
	bs, err := rlp.EncodeToBytes(payload)
	if err != nil {
		panic(err)
	}
	out, err := rlp.EncodeToBytes(&staking.Message{Action: action, Payload: bs})
	if err != nil {
		panic(err)
	}
	return out
}

func userKeyOf(i int) common.Address { return chainkit.Addr(chainkit.Key("user", i)) }

// newScenario builds the chain.  tiny=true adds two offline genesis validators holding less than one stake unit
// (Stake = 0 < Token): v8 with 60 LU (penalty 1 LU -> F-C05c), v9 with 40 LU (penalty 0 -> zero-penalty expel).
func newScenario(blocks int, tiny bool) (*scenario, error) {
	initBLS()
	s := &scenario{sets: map[uint64][]common.Address{}, setKeys: map[uint64][]string{}}
	type gv struct {
		role   params.ValidatorRole
		token  *big.Int
		bls    int
		status uint8
	}
	gvs := []gv{
		{params.RoleChancellor, you(5000), 0, 1},
		{params.RoleChancellor, you(4000), 1, 1},
		{params.RoleSenator, you(3000), 2, 1},
		{params.RoleHouse, you(2000), 3, 1},
		{params.RoleHouse, you(1500), 3, 1}, // shares its BLS key with v3
		{params.RoleHouse, you(1000), -1, 1},
		{params.RoleSenator, you(800), -2, 1},
	}
	if tiny {
		gvs = append(gvs, gv{params.RoleHouse, big.NewInt(60), 5, 0}, gv{params.RoleHouse, big.NewInt(40), 6, 0})
	}
	cfg := chainkit.Config{Alloc: map[common.Address]*big.Int{}}
	for i := 0; i < 12; i++ {
		cfg.Alloc[userKeyOf(i)] = you(1000000)
	}
	for i, g := range gvs {
		var pub []byte
		switch g.bls {
		case -1:
			pub = bytes.Repeat([]byte{0xee}, 96) // right length, not a curve point
		case -2:
			pub = []byte{1, 2} // wrong length
		default:
			pub = blsPub[g.bls]
		}
		b := g.bls
		if b < 0 {
			b = -1
		}
		s.vals = append(s.vals, chainkit.ValSpec{Main: chainkit.Key("c05val", i), Bls: pub, Operator: userKeyOf(i), Coinbase: chainkit.Addr(chainkit.Key("c05cb", i)),
			Role: g.role, Token: g.token, Status: g.status})
		s.valBls = append(s.valBls, b)
	}
	cfg.Vals = s.vals
	k, err := chainkit.New(cfg)
	if err != nil {
		return nil, err
	}
	s.k = k
	v := params.Versions[params.YouV5]
	s.yp = &v

	nonces := map[int]uint64{}
	mk := func(user int, data []byte, value *big.Int) *types.Transaction {
		tx, err := types.SignTx(types.NewTransaction(nonces[user], params.StakingModuleAddress, value, 500000, big.NewInt(params.GLu), data), k.Signer, chainkit.Key("user", user))
		if err != nil {
			panic(err)
		}
		nonces[user]++
		return tx
	}
	// period 0: v2 deposits (order of the set changes at block 15), a new validator v7 is created, v1 opens for delegation
	newIdx := len(s.vals)
	nv := chainkit.ValSpec{Main: chainkit.Key("c05val", 100), Bls: blsPub[4], Operator: userKeyOf(10), Coinbase: chainkit.Addr(chainkit.Key("c05cb", 100)),
		Role: params.RoleHouse, Token: you(2500), Status: 1}
	for b := 1; b <= blocks; b++ {
		var txs []*types.Transaction
		switch b {
		case 2:
			txs = append(txs, mk(2, encStaking(staking.ValidatorDeposit, &staking.TxValidatorDeposit{MainAddress: s.vals[2].MainAddr(), Value: you(3500), Nonce: 1}), big.NewInt(0)))
			txs = append(txs, mk(10, encStaking(staking.ValidatorCreate, &staking.TxCreateValidator{Name: "n", OperatorAddress: userKeyOf(10), Coinbase: nv.Coinbase,
				MainPubKey: nv.MainPub(), BlsPubKey: nv.Bls, Value: nv.Token, Nonce: 1, CommissionRate: 100, RiskObligation: 2000, AcceptDelegation: 1, Role: nv.Role}), big.NewInt(0)))
			txs = append(txs, mk(1, encStaking(staking.ValidatorUpdate, &staking.TxUpdateValidator{Nonce: 1, MainAddress: s.vals[1].MainAddr(), CommissionRate: 500, RiskObligation: 3000, AcceptDelegation: 1}), big.NewInt(0)))
		case 17:
			// period 1: delegations to v1 and v7, a partial self-withdrawal of v3 (unfinished withdraw record from block 31 on)
			txs = append(txs, mk(8, encStaking(staking.DelegationAdd, &staking.TxDelegation{Validator: s.vals[1].MainAddr(), Value: new(big.Int).Add(you(700), big.NewInt(123456789))}), big.NewInt(0)))
			txs = append(txs, mk(9, encStaking(staking.DelegationAdd, &staking.TxDelegation{Validator: s.vals[1].MainAddr(), Value: you(41)}), big.NewInt(0)))
			txs = append(txs, mk(9, encStaking(staking.DelegationAdd, &staking.TxDelegation{Validator: nv.MainAddr(), Value: you(300)}), big.NewInt(0)))
			txs = append(txs, mk(3, encStaking(staking.ValidatorWithDraw, &staking.TxValidatorWithdraw{MainAddress: s.vals[3].MainAddr(), Recipient: userKeyOf(3), Value: you(600), Nonce: 1}), big.NewInt(0)))
		case 33:
			// period 2: part of a delegation is withdrawn (unfinished delegator withdraw record from block 47 on)
			txs = append(txs, mk(8, encStaking(staking.DelegationSub, &staking.TxDelegation{Validator: s.vals[1].MainAddr(), Value: you(200)}), big.NewInt(0)))
		}
		w, err := k.Begin(s.vals[0].MainAddr())
		if err != nil {
			return nil, err
		}
		for _, tx := range txs {
			if o := w.Apply(tx); !o.Included {
				return nil, fmt.Errorf("scenario tx in block %d refused: %s", b, o.Err)
			}
		}
		bl, err := w.Finish(nil)
		if err != nil {
			return nil, err
		}
		if bl.Panic != "" {
			k.Stop()
			return nil, &disagreeError{fmt.Sprintf("building scenario block %d: the end-block hook panics: %s", b, bl.Panic)}
		}
		if err := k.Import(bl.Block); err != nil {
			k.Stop()
			return nil, &disagreeError{fmt.Sprintf("scenario block %d: %v", b, err)}
		}
		if b == 2 {
			s.vals = append(s.vals, nv)
			s.valBls = append(s.valBls, 4)
			_ = newIdx
		}
	}
	s.refreshSets()
	return s, nil
}

// refreshSets recomputes the validator order of every header (the harness' own look-back view, read from the
// headers' ValRoots, independent of LookBackVldReaderForRound).
func (s *scenario) refreshSets() {
	bc := s.k.A.BC
	s.head = bc.CurrentBlock().NumberU64()
	s.setLines = nil
	prev := ""
	for n := uint64(0); n <= s.head; n++ {
		if _, ok := s.sets[n]; !ok {
			h := bc.GetHeaderByNumber(n)
			rd, err := bc.GetVldReader(h.ValRoot)
			if err != nil {
				panic(err)
			}
			var as []common.Address
			var ks []string
			for _, v := range rd.GetValidators().List() {
				as = append(as, v.MainAddress())
				ks = append(ks, keyID(v.BlsPubKey))
			}
			s.sets[n], s.setKeys[n] = as, ks
		}
		var sb strings.Builder
		for i, a := range s.sets[n] {
			fmt.Fprintf(&sb, " %x %s", a.Bytes(), s.setKeys[n][i])
		}
		if sb.String() != prev {
			s.setLines = append(s.setLines, fmt.Sprintf("SET %d %d%s", n, len(s.sets[n]), sb.String()))
			prev = sb.String()
		}
	}
}

func (s *scenario) cfgLine() string { return s.cfgLineFor(s.yp) }

func (s *scenario) cfgLineFor(yp *params.YouParams) string {
	return fmt.Sprintf("CFG %d %d %d %d %d %d %s %d", yp.PenaltyFractionForDoubleSign, yp.ExpelledRoundForDoubleSign, yp.MaxEvidenceExpiredIn,
		yp.StakeLookBack, params.ACoCHTFrequency*2, 8, params.StakeUint.String(), s.head)
}

// expectedLookBack is the harness' own reading of which set an evidence of round r is indexed in.
func (s *scenario) expectedLookBack(r uint64, cert bool) ([]common.Address, []string, bool) {
	pr := uint64(0)
	if r > 8 {
		pr = r - 8
	}
	if pr > s.head {
		return nil, nil, false
	}
	c := s.yp.StakeLookBack
	if cert {
		c = params.ACoCHTFrequency * 2
	}
	lb := uint64(0)
	if r > c {
		lb = r - c
	}
	if lb > s.head {
		return nil, nil, false
	}
	return s.sets[lb], s.setKeys[lb], true
}

// ---- state dump / canonical form ------------------------------------------------------------------

func valLine(v *state.Validator) string {
	var sb strings.Builder
	ex := 0
	if v.Expelled {
		ex = 1
	}
	fmt.Fprintf(&sb, "VAL %x %d %d %d %s %s %s %s %d %d", v.MainAddress().Bytes(), v.Status, ex, v.ExpelExpired, v.Token, v.Stake, v.SelfToken, v.SelfStake, v.RiskObligation, len(v.Delegations))
	for _, d := range v.Delegations {
		fmt.Fprintf(&sb, " %x %s %s", d.Delegator.Bytes(), d.Stake, d.Token)
	}
	return sb.String()
}

func valCanon(v *state.Validator) string {
	ex := 0
	if v.Expelled {
		ex = 1
	}
	var ds []string
	for _, d := range v.Delegations {
		ds = append(ds, fmt.Sprintf("%x:%s:%s", d.Delegator.Bytes(), d.Stake, d.Token))
	}
	return fmt.Sprintf("V %x %d %d %d %s %s %s %s [%s]", v.MainAddress().Bytes(), v.Status, ex, v.ExpelExpired, v.Token, v.Stake, v.SelfToken, v.SelfStake, strings.Join(ds, ","))
}

// stateLines dumps what the model needs of a StateDB: validators (index order), withdraw queue, PenaltyTo balance.
func stateLines(st *state.StateDB, yp *params.YouParams) []string {
	var out []string
	for _, v := range st.GetValidatorsForUpdate() {
		if st.GetValidatorByMainAddr(v.MainAddress()) == nil {
			continue // removed in this state
		}
		out = append(out, valLine(v))
	}
	for _, r := range st.GetWithdrawQueue().Records {
		out = append(out, fmt.Sprintf("REC %x %x %d %s", r.Validator.Bytes(), r.Delegator.Bytes(), r.Finished, r.FinalBalance))
	}
	out = append(out, "PTO "+st.GetBalance(yp.PenaltyTo).String())
	return out
}

func stateCanon(st *state.StateDB, yp *params.YouParams) string {
	var vs, qs []string
	for _, v := range st.GetValidatorsForUpdate() {
		if st.GetValidatorByMainAddr(v.MainAddress()) == nil {
			continue
		}
		vs = append(vs, valCanon(v))
	}
	for _, r := range st.GetWithdrawQueue().Records {
		qs = append(qs, r.FinalBalance.String())
	}
	return fmt.Sprintf("%s Q [%s] P %s", strings.Join(vs, " "), strings.Join(qs, ","), st.GetBalance(yp.PenaltyTo))
}
