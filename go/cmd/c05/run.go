package main

// C05 — correspondence (Lean model vs real processEvidences / takePenalty / EndBlock), implementation-level oracle
// (the property's statement evaluated on the real code's behaviour), chain-level builder/importer runs, probes.

import (
	"fmt"
	"math/big"
	"strings"

	"github.com/youchainhq/go-youchain/common"

	"verifharness/cmd/c07/chainkit"
	_ "verifharness/internal/quiet"
	"verifharness/internal/vh"
)

const rule = "evidence decodes, names the parent round, and every signature verifies under the BLS key of the indexed look-back validator (acceptance logic past the crypto is reached); takePenalty cases: amount > 0 and something is taken"

type failure struct {
	kind, matcher, what string
}

// parsePayload splits a signed message into (hash, round, index) if it has the vote-payload shape.
func parsePayload(msg []byte) (hash string, round uint64, idx uint32, ok bool) {
	if len(msg) < 36 || len(msg) > 44 {
		return "", 0, 0, false
	}
	rb := msg[32 : len(msg)-4]
	if len(rb) > 0 && rb[0] == 0 {
		return "", 0, 0, false
	}
	round = new(big.Int).SetBytes(rb).Uint64()
	t := msg[len(msg)-4:]
	return string(msg[:32]), round, uint32(t[0])<<24 | uint32(t[1])<<16 | uint32(t[2])<<8 | uint32(t[3]), true
}

// validFor says whether evidence e is, by the harness' own reading of the property, a list of >= 2 votes all signed by
// BLS key k for (e.round, e.roundIndex); it returns the distinct hashes and the kinds they were signed as.
func validFor(e *evInfo, k int) (okAll bool, hashes map[string]map[int]bool) {
	hashes = map[string]map[int]bool{}
	if e.ds == nil || len(e.sigs) != len(e.ds.Signs) || len(e.sigs) < 2 {
		return false, hashes
	}
	for i, si := range e.sigs {
		if si.key != k {
			return false, hashes
		}
		h, rd, ix, ok := parsePayload(si.msg)
		if !ok || rd != e.ds.Round || ix != e.ds.RoundIndex || h != string(e.ds.Signs[i].Hash.Bytes()) {
			return false, hashes
		}
		if hashes[h] == nil {
			hashes[h] = map[int]bool{}
		}
		hashes[h][si.kind] = true
	}
	return true, hashes
}

// holderEquivocated: did the holder of key k sign two different hashes as the same vote kind for one (round, index),
// judging by every signature that appears anywhere in the case?
func holderEquivocated(c *ucase, k int) bool {
	type slot struct {
		r    uint64
		i    uint32
		kind int
	}
	seen := map[slot]string{}
	for _, e := range c.evs {
		for _, si := range e.sigs {
			if si.key != k {
				continue
			}
			h, rd, ix, ok := parsePayload(si.msg)
			if !ok {
				continue
			}
			s := slot{rd, ix, si.kind}
			if p, dup := seen[s]; dup && p != h {
				return true
			}
			seen[s] = h
		}
	}
	return false
}

func (s *scenario) blsOf(a common.Address) int {
	for i, v := range s.vals {
		if v.MainAddr() == a {
			return s.valBls[i]
		}
	}
	return -1
}

// oracle evaluates the property directly on the observed behaviour of the real code.
func (s *scenario) oracle(c *ucase, r *uresult) []failure {
	var fs []failure
	frac := new(big.Int).SetUint64(s.paramsFor(c).PenaltyFractionForDoubleSign)
	if c.kind == "T" {
		return nil // takePenalty cases are judged by oracleTake
	}
	if r.crashed {
		m := ""
		for _, v := range r.before.vals {
			if v.stake.Sign() == 0 && new(big.Int).Div(new(big.Int).Mul(v.token, frac), big.NewInt(100)).Sign() > 0 {
				m = "stake-zero-division"
			}
		}
		return []failure{{"oracle", m, "processing the evidence list panics (the end-block hook of builder and importer dies): " + r.panicMsg}}
	}
	// once per block
	seenA := map[common.Address]bool{}
	for _, a := range r.affected {
		if seenA[a] {
			fs = append(fs, failure{"oracle", "", fmt.Sprintf("validator %x is in the affected list twice", a.Bytes())})
		}
		seenA[a] = true
	}
	// conservation and bound
	totalDec := new(big.Int)
	recDec := map[common.Address]*big.Int{}
	for i, b := range r.before.finals {
		d := new(big.Int).Sub(b, r.after.finals[i])
		if d.Sign() < 0 {
			fs = append(fs, failure{"oracle", "", "a withdraw record grew"})
		}
		totalDec.Add(totalDec, d)
		if recDec[r.before.recVal[i]] == nil {
			recDec[r.before.recVal[i]] = new(big.Int)
		}
		recDec[r.before.recVal[i]].Add(recDec[r.before.recVal[i]], d)
	}
	for _, a := range sortedAddrs(r.before.vals) {
		b, af := r.before.vals[a], r.after.vals[a]
		if af == nil {
			fs = append(fs, failure{"oracle", "", "a validator disappeared"})
			continue
		}
		d := new(big.Int).Sub(b.token, af.token)
		totalDec.Add(totalDec, d)
		rd := recDec[a]
		if rd == nil {
			rd = new(big.Int)
		}
		taken := new(big.Int).Add(d, rd)
		if b.canon == af.canon && rd.Sign() == 0 {
			continue
		}
		// the validator was touched
		if b.wf {
			bound := new(big.Int).Div(new(big.Int).Mul(b.token, frac), big.NewInt(100))
			if taken.Cmp(bound) > 0 || taken.Sign() < 0 {
				fs = append(fs, failure{"oracle", "", fmt.Sprintf("validator %x lost %s, more than %s%% of its token %s (bound %s)", a.Bytes(), taken, frac, b.token, bound)})
			}
			// decomposition: token decrease = self decrease + delegation decreases
			parts := new(big.Int).Sub(b.selfTok, af.selfTok)
			for da, bt := range b.delegs {
				at := af.delegs[da]
				if at == nil {
					at = new(big.Int)
				}
				parts.Add(parts, new(big.Int).Sub(bt, at))
			}
			if parts.Cmp(d) != 0 {
				fs = append(fs, failure{"oracle", "", fmt.Sprintf("validator %x: token decrease %s differs from the decrease of its parts %s", a.Bytes(), d, parts)})
			}
		}
		// slashed => the holder of its BLS key really equivocated
		k := s.blsOf(a)
		justified, dupOnly, crossOnly := false, false, false
		for _, e := range c.evs {
			if e.ds == nil || e.ev.Type != "doublesignv5" || e.ds.Round != c.parent {
				continue
			}
			set, _, ok := s.expectedLookBack(e.ds.Round, e.ds.VoteType == 5)
			if !ok || int(e.ds.SignerIdx) >= len(set) || set[e.ds.SignerIdx] != a || k < 0 {
				continue
			}
			okAll, hashes := validFor(e, k)
			if !okAll {
				continue
			}
			justified = true
			if len(hashes) < 2 {
				dupOnly = true
			} else {
				same := false
				kinds := map[int]int{}
				for _, ks := range hashes {
					for kd := range ks {
						kinds[kd]++
					}
				}
				for _, n := range kinds {
					if n >= 2 {
						same = true
					}
				}
				if !same {
					crossOnly = true
				}
			}
		}
		switch {
		case !justified:
			fs = append(fs, failure{"oracle", "", fmt.Sprintf("validator %x was penalised without any evidence of votes signed by its BLS key for the parent round at its look-back index", a.Bytes())})
		case k >= 0 && !holderEquivocated(c, k):
			m := ""
			if dupOnly && !crossOnly {
				m = "duplicate-pair-evidence"
			} else if crossOnly {
				m = "cross-kind-evidence"
			}
			fs = append(fs, failure{"oracle", m, fmt.Sprintf("validator %x never signed two different hashes as one vote kind in one (round, index), yet it was penalised (lost %s, expelled=%v)", a.Bytes(), taken, af.expelled)})
		}
		if !af.expelled || af.status != 0 {
			fs = append(fs, failure{"oracle", "", fmt.Sprintf("validator %x was touched but not expelled/offline", a.Bytes())})
		}
	}
	if totalDec.Cmp(new(big.Int).Sub(r.after.pto, r.before.pto)) != 0 {
		fs = append(fs, failure{"oracle", "", fmt.Sprintf("tokens taken (%s) differ from the credit to PenaltyTo (%s)", totalDec, new(big.Int).Sub(r.after.pto, r.before.pto))})
	}
	// real same-kind equivocation, correctly indexed, of a validator present in the current state => penalised
	done := map[common.Address]bool{}
	for _, e := range c.evs {
		if e.ds == nil || e.ev.Type != "doublesignv5" || e.ds.Round != c.parent {
			continue
		}
		set, _, ok := s.expectedLookBack(e.ds.Round, e.ds.VoteType == 5)
		if !ok || int(e.ds.SignerIdx) >= len(set) {
			continue
		}
		a := set[e.ds.SignerIdx]
		k := s.blsOf(a)
		if k < 0 || done[a] || r.before.vals[a] == nil {
			continue
		}
		okAll, hashes := validFor(e, k)
		if !okAll || len(hashes) < 2 {
			continue
		}
		done[a] = true
		if af := r.after.vals[a]; af == nil || !af.expelled || af.status != 0 {
			fs = append(fs, failure{"oracle", "", fmt.Sprintf("validator %x signed %d different hashes for (round %d, index %d) and the evidence is well-formed, yet it was not expelled", a.Bytes(), len(hashes), e.ds.Round, e.ds.RoundIndex)})
		}
	}
	// builder and validator agree
	if i := strings.Index(r.goOut, " V "); i >= 0 {
		if bs := "ok" + r.goOut[i:]; bs != r.goRpl {
			m := ""
			inAff := map[common.Address]bool{}
			for _, a := range r.affected {
				inAff[a] = true
			}
			for a, b := range r.before.vals {
				if af := r.after.vals[a]; af != nil && af.canon != b.canon && !inAff[a] {
					m = "zero-penalty-expel"
				}
			}
			fs = append(fs, failure{"oracle", m, "replaying the builder's SlashData on the same state gives a different state than the builder's: builder " + bs + " / replay " + r.goRpl})
		}
	}
	return fs
}

// oracleTake: takePenalty never takes more than asked (well-formed records) and what it reports is what it took.
func (s *scenario) oracleTake(c *ucase, r *uresult) []failure {
	if r.crashed {
		v := r.before.vals[c.tpAddr]
		m := ""
		if v != nil && v.stake.Sign() == 0 {
			m = "stake-zero-division"
		}
		return []failure{{"oracle", m, "takePenalty panics: " + r.panicMsg}}
	}
	f := strings.Fields(r.goOut)
	if len(f) < 2 || f[0] != "ok" {
		return nil
	}
	total := bigOf(f[1])
	v := r.before.vals[c.tpAddr]
	if v != nil && v.wf && (total.Cmp(c.tpAmt) > 0 || total.Sign() < 0) {
		return []failure{{"oracle", "", fmt.Sprintf("takePenalty took %s, asked %s", total, c.tpAmt)}}
	}
	return nil
}

func caseCanon(lines []string) string { return strings.Join(lines, "\n") }

// evaluate runs one case and returns its failures (correspondence first, then oracle).
func (s *scenario) evaluate(drv *vh.Driver, lines []string) (*ucase, *uresult, []failure, error) {
	c, err := parseCase(lines)
	if err != nil {
		return nil, nil, nil, err
	}
	r, err := s.runUnit(drv, c)
	if err != nil {
		return c, nil, nil, err
	}
	var fs []failure
	if r.goOut != r.leanOut {
		fs = append(fs, failure{"correspondence", "", "model and implementation disagree\n  go:   " + r.goOut + "\n  lean: " + r.leanOut})
	}
	if c.kind == "U" && r.goRpl != r.leanRpl {
		fs = append(fs, failure{"correspondence", "", "model and implementation disagree on the replay path\n  go:   " + r.goRpl + "\n  lean: " + r.leanRpl})
	}
	if c.kind == "U" {
		fs = append(fs, s.oracle(c, r)...)
	} else {
		if r.before == nil {
			r.before = &snap{vals: map[common.Address]*vsnap{}}
		}
		fs = append(fs, s.oracleTake(c, r)...)
	}
	return c, r, fs, nil
}

// shrink a failing case: drop VAL/REC/E lines while a failure of the same kind and matcher persists.
func (s *scenario) shrink(drv *vh.Driver, lines []string, want failure) []string {
	head, rest := lines[0], lines[1:]
	fails := func(ops []string) bool {
		_, _, fs, err := s.evaluate(drv, append([]string{head}, ops...))
		if err != nil {
			return false
		}
		for _, f := range fs {
			if f.kind == want.kind && f.matcher == want.matcher {
				return true
			}
		}
		return false
	}
	return append([]string{head}, vh.Shrink(rest, fails)...)
}

func nontrivialUnit(r *uresult) bool {
	// some evidence got past the signature checks
	for _, l := range strings.Split(r.letters, ",") {
		switch l {
		case "c", "d", "x8", "x9", "x10":
			return true
		}
	}
	return false
}

func run(c *vh.Ctx) error {
	chainkit.Init()
	res := c.Res
	res.Rule = rule
	drv, err := vh.StartDriver(c.Driver)
	if err != nil {
		return err
	}
	defer drv.Close()
	sc, err := scenarioOrFail(c, 52, false)
	if err != nil {
		return err
	}
	if sc == nil {
		// the scenario chain cannot be built (reported above): the streams that need it are skipped, the chain-level
		// stream and the probes build their own chains
		res.Partial = append(res.Partial, "scenario chain could not be built: unit, takePenalty, end-to-end and pool streams skipped in this run")
		if err := chainLevel(c, drv); err != nil {
			return err
		}
		probes(c, nil, drv)
		return nil
	}
	defer sc.k.Stop()

	reported := map[string]int{}
	report := func(name string, lines []string, fs []failure) {
		seen := map[string]bool{}
		for _, f := range fs {
			key := f.kind + "/" + f.matcher
			if seen[key] {
				continue
			}
			seen[key] = true
			reported[key]++
			res.Dist("failure:" + key)
			if reported[key] > 2 {
				continue // the first two of a kind are shrunk and written; the rest only counted
			}
			sh := sc.shrink(drv, lines, f)
			rp := vh.WriteReplay(c.ReplayDir, "C05", fmt.Sprintf("%s-%s-%d", name, strings.ReplaceAll(key, "/", "-"), c.Seed), c.Seed,
				[]string{"scenario std", "failure " + f.kind + " " + f.matcher, strings.ReplaceAll(f.what, "\n", " | ")}, sh)
			res.Fail(f.kind, f.matcher, f.what, rp)
		}
	}

	// 0. corpus: witnesses of fixed findings must not fail any more; any failure there is a regression
	for _, p := range vh.CorpusFiles("C05") {
		body, _, err := vh.ReadReplay(p)
		if err != nil {
			return err
		}
		still, what := replayBody(sc, drv, body)
		res.Dist("corpus")
		if still {
			res.Fail("corpus", "", "corpus witness fails again: "+p+": "+what, p)
		}
	}

	// 1. payload bytes: model vs the harness' reading of signVote, on boundary rounds/indices
	for _, rd := range []uint64{0, 1, 255, 256, 65535, 65536, 1 << 24, 1<<32 - 1, 1 << 32, 1<<56 + 5, 1<<64 - 1, sc.head} {
		for _, ix := range []uint32{0, 1, 255, 256, 1<<32 - 1} {
			h := hashN(int(rd%7) + 1)
			lo, err := drv.Ask(fmt.Sprintf("PAY %x %d %d", h, rd, ix))
			if err != nil {
				return err
			}
			if g := fmt.Sprintf("%x", payloadBytes(h, rd, ix)); g != lo {
				res.Fail("correspondence", "", fmt.Sprintf("payload bytes differ for round %d index %d: go %s lean %s", rd, ix, g, lo), "")
			}
			res.TracesVsImpl++
		}
	}

	// 2. takePenalty cases
	nT := c.N(2500, 40000)
	for i := 0; i < nT; i++ {
		lines := genTake(c.R, sc, res.Dist)
		_, r, fs, err := sc.evaluate(drv, lines)
		if err != nil {
			return fmt.Errorf("T case %d: %v\n%s", i, err, strings.Join(lines, "\n"))
		}
		res.TracesVsImpl++
		res.Dist("case:takePenalty")
		f := strings.Fields(r.goOut)
		nt := len(f) > 1 && f[0] == "ok" && f[1] != "0"
		if r.crashed {
			res.Dist("take:crash")
		} else if nt {
			res.Dist("take:taken")
		} else {
			res.Dist("take:nothing")
		}
		res.Count(caseCanon(lines), nt || r.crashed)
		if i < 1 {
			res.Sample(map[string]interface{}{"case": lines, "go": r.goOut, "lean": r.leanOut})
		}
		if len(fs) > 0 {
			report(fmt.Sprintf("take%d", i), lines, fs)
		}
	}

	// 3. evidence-list cases on crafted states
	nU := c.N(700, 9000)
	for i := 0; i < nU; i++ {
		lines := genUnit(c.R, sc, res.Dist)
		_, r, fs, err := sc.evaluate(drv, lines)
		if err != nil {
			return fmt.Errorf("U case %d: %v\n%s", i, err, strings.Join(lines, "\n"))
		}
		res.TracesVsImpl++
		res.Dist("case:evidence-list")
		for _, l := range strings.Split(r.letters, ",") {
			if l != "" {
				res.Dist("verdict:" + l)
			}
		}
		res.Count(caseCanon(lines), nontrivialUnit(r))
		if nontrivialUnit(r) && len(res.Samples) < 4 {
			res.Sample(map[string]interface{}{"case": lines, "go": r.goOut, "lean": r.leanOut, "verdicts": r.letters})
		}
		if len(fs) > 0 {
			report(fmt.Sprintf("unit%d", i), lines, fs)
		}
	}

	// 3b. end to end with the real Voter (C02 hook): its votes, over histories with crashes and restarts, are the raw
	// material of the evidence
	nE := c.N(150, 1500)
	e2eReported := map[string]int{}
	for i := 0; i < nE; i++ {
		script := genVoterHistory(c.R, sc.head, 30+c.R.Intn(60))
		fs, offered, err := sc.e2eCase(drv, script, res.Dist)
		if err != nil {
			return fmt.Errorf("e2e case %d: %v\n%s", i, err, strings.Join(script, "\n"))
		}
		res.TracesVsImpl++
		res.Dist("case:e2e-voter-history")
		res.Count("E2E\n"+strings.Join(script, "\n"), offered > 0)
		seen := map[string]bool{}
		for _, f := range fs {
			key := f.kind + "/" + f.matcher
			if seen[key] {
				continue
			}
			seen[key] = true
			e2eReported[key]++
			res.Dist("failure:e2e:" + key)
			if e2eReported[key] > 2 {
				continue
			}
			want := f
			sh := vh.Shrink(script, func(ops []string) bool {
				g, _, err := sc.e2eCase(drv, ops, func(string) {})
				if err != nil {
					return false
				}
				for _, x := range g {
					if x.kind == want.kind && x.matcher == want.matcher {
						return true
					}
				}
				return false
			})
			rp := vh.WriteReplay(c.ReplayDir, "C05", fmt.Sprintf("e2e%d-%s-%d", i, strings.ReplaceAll(key, "/", "-"), c.Seed), c.Seed,
				[]string{"real Voter history -> evidence", "failure " + f.kind + " " + f.matcher, strings.ReplaceAll(f.what, "\n", " | ")}, append([]string{"E2E"}, sh...))
			res.Fail(f.kind, f.matcher, f.what, rp)
		}
	}

	// 3c. the builder's pool under interleaved arrivals
	nP := c.N(120, 1200)
	poolReported := map[string]int{}
	for i := 0; i < nP; i++ {
		lines := genPoolCase(c.R, sc, res.Dist)
		fs, err := sc.poolCase(drv, lines, res.Dist)
		if err != nil {
			return fmt.Errorf("pool case %d: %v\n%s", i, err, strings.Join(lines, "\n"))
		}
		res.TracesVsImpl++
		res.Dist("case:pool-interleaving")
		res.Count("POOL\n"+strings.Join(lines, "\n"), strings.Contains(lines[len(lines)-1], "/"))
		seen := map[string]bool{}
		for _, f := range fs {
			key := f.kind + "/" + f.matcher
			if seen[key] {
				continue
			}
			seen[key] = true
			poolReported[key]++
			res.Dist("failure:pool:" + key)
			if poolReported[key] > 2 {
				continue
			}
			rp := vh.WriteReplay(c.ReplayDir, "C05", fmt.Sprintf("pool%d-%s-%d", i, strings.ReplaceAll(key, "/", "-"), c.Seed), c.Seed,
				[]string{"evidence pool under interleaved arrivals", "failure " + f.kind + " " + f.matcher, strings.ReplaceAll(f.what, "\n", " | ")}, append([]string{"POOL"}, lines...))
			res.Fail(f.kind, f.matcher, f.what, rp)
		}
	}

	// 4. chain level: real blocks through builder (slashing) and importers (replaySlashing)
	if err := chainLevel(c, drv); err != nil {
		return err
	}

	// 5. probes of the listed findings
	probes(c, sc, drv)

	res.Partial = append(res.Partial,
		"BLS soundness is assumed (EUF hypothesis of the theorems); the correspondence only checks that real signatures behave like the symbolic ones on the generated cases",
		"validator records with duplicate or unsorted delegators are outside the model (no code path creates them)",
		"slashing log contents (receipt data) are not compared")
	return nil
}

func replayBody(sc *scenario, drv *vh.Driver, body []string) (bool, string) {
	if len(body) > 0 && strings.HasPrefix(body[0], "CHAIN") {
		return replayChain(drv, body)
	}
	if len(body) > 0 && body[0] == "POOL" {
		fs, err := sc.poolCase(drv, body[1:], func(string) {})
		if err != nil {
			return true, "replay error: " + err.Error()
		}
		if len(fs) == 0 {
			return false, "no failure"
		}
		return true, fs[0].kind + "/" + fs[0].matcher + ": " + fs[0].what
	}
	if len(body) > 0 && body[0] == "E2E" {
		fs, _, err := sc.e2eCase(drv, body[1:], func(string) {})
		if err != nil {
			return true, "replay error: " + err.Error()
		}
		if len(fs) == 0 {
			return false, "no failure"
		}
		return true, fs[0].kind + "/" + fs[0].matcher + ": " + fs[0].what
	}
	_, _, fs, err := sc.evaluate(drv, body)
	if err != nil {
		return true, "replay error: " + err.Error()
	}
	if len(fs) == 0 {
		return false, "no failure"
	}
	var ws []string
	for _, f := range fs {
		ws = append(ws, f.kind+"/"+f.matcher+": "+f.what)
	}
	return true, strings.Join(ws, "\n")
}

func replay(c *vh.Ctx, body, comments []string) (bool, string) {
	chainkit.Init()
	drv, err := vh.StartDriver(c.Driver)
	if err != nil {
		return true, "cannot start driver: " + err.Error()
	}
	defer drv.Close()
	if len(body) > 0 && strings.HasPrefix(body[0], "SCENARIO") {
		var blocks, tiny int
		if _, err := fmt.Sscanf(body[0], "SCENARIO %d %d", &blocks, &tiny); err != nil {
			return true, "bad SCENARIO line"
		}
		for try := 0; try < scenarioTries; try++ {
			s2, err := newScenario(blocks, tiny == 1)
			if err != nil {
				return true, fmt.Sprintf("try %d: %v", try+1, err)
			}
			s2.k.Stop()
		}
		return false, fmt.Sprintf("no failure in %d builds of the scenario", scenarioTries)
	}
	if len(body) > 0 && strings.HasPrefix(body[0], "CHAIN") {
		// chain scripts build their own chain; a disagreement may depend on Go map order: re-run a few times
		var last string
		for try := 0; try < 5; try++ {
			still, what := replayChain(drv, body)
			if still {
				return true, what
			}
			last = what
		}
		return false, last
	}
	sc, err := scenarioOrFail(nil, 52, false)
	if err != nil || sc == nil {
		return true, fmt.Sprintf("scenario: %v", err)
	}
	defer sc.k.Stop()
	return replayBody(sc, drv, body)
}
