package main

// Seeded structured generator of unit cases (text lines, see cases.go).

import (
	"encoding/hex"
	"fmt"
	"math/big"
	"strings"

	"github.com/youchainhq/go-youchain/common"
	"github.com/youchainhq/go-youchain/crypto"
	"github.com/youchainhq/go-youchain/rlp"
	"github.com/youchainhq/go-youchain/staking"

	"verifharness/internal/vh"
)

var unitLU = new(big.Int).Exp(big.NewInt(10), big.NewInt(18), nil)

func hashN(n int) []byte {
	if n == 0 {
		return make([]byte, 32) // the empty hash of a next-index vote
	}
	return crypto.Keccak256([]byte(fmt.Sprintf("c05-block-%d", n)))
}

func delegatorAddr(j int) common.Address { return common.BigToAddress(big.NewInt(int64(0xd0 + j))) }

// randToken: an amount in LU with a random whole and fractional part
func randToken(r *vh.RNG) *big.Int {
	var whole int64
	switch r.Intn(6) {
	case 0:
		whole = 0
	case 1:
		whole = int64(r.Intn(3))
	case 2:
		whole = int64(r.Intn(100))
	default:
		whole = int64(r.Intn(6000))
	}
	t := new(big.Int).Mul(big.NewInt(whole), unitLU)
	switch r.Intn(4) {
	case 0:
	case 1:
		t.Add(t, big.NewInt(int64(r.Intn(1000))))
	default:
		f := new(big.Int).SetUint64(r.U64() % 1000000000000000000)
		t.Add(t, f)
	}
	return t
}

func stakeOf(t *big.Int) *big.Int { return new(big.Int).Div(t, unitLU) }

var risks = []int{0, 0, 0, 1, 2000, 3000, 5000, 9999, 10000, 10001, 40000}

// genVal crafts a record for the validator; mode is reported for the distribution.
func genVal(r *vh.RNG, addr common.Address, cur string) (line string, mode string, delegators []common.Address) {
	m := r.Weighted([]int{25, 40, 6, 6, 6, 6, 6, 5})
	status := 1
	if r.Chance(20) {
		status = 0
	}
	expelled, ee := 0, uint64(0)
	if r.Chance(15) {
		expelled, ee = 1, uint64(r.Intn(600))
	}
	risk := risks[r.Intn(len(risks))]
	self := randToken(r)
	nd := r.Weighted([]int{40, 25, 20, 10, 5})
	var dts []*big.Int
	for j := 0; j < nd; j++ {
		dts = append(dts, randToken(r))
		delegators = append(delegators, delegatorAddr(j))
	}
	build := func(token, stake, selfTok, selfStk *big.Int, dstk []*big.Int) string {
		var sb strings.Builder
		fmt.Fprintf(&sb, "VAL %x %d %d %d %s %s %s %s %d %d", addr.Bytes(), status, expelled, ee, token, stake, selfTok, selfStk, risk, nd)
		for j := 0; j < nd; j++ {
			fmt.Fprintf(&sb, " %x %s %s", delegators[j].Bytes(), dstk[j], dts[j])
		}
		return sb.String()
	}
	wf := func() (token, stake *big.Int, dstk []*big.Int) {
		token, stake = new(big.Int).Set(self), stakeOf(self)
		for _, t := range dts {
			token.Add(token, t)
			stake.Add(stake, stakeOf(t))
			dstk = append(dstk, stakeOf(t))
		}
		return
	}
	switch m {
	case 0:
		return cur, "val:as-on-chain", nil
	case 1:
		token, stake, dstk := wf()
		return build(token, stake, self, stakeOf(self), dstk), "val:wellformed", delegators
	case 2: // Stake = 0 < Token: everything below one unit
		self = big.NewInt(int64(50 + r.Intn(1000)))
		for j := range dts {
			dts[j] = big.NewInt(int64(r.Intn(1000)))
		}
		token, stake, dstk := wf()
		return build(token, stake, self, stakeOf(self), dstk), "val:stake-zero", delegators
	case 3: // tiny token: penalty amount 0
		self = big.NewInt(int64(r.Intn(50)))
		nd, dts, delegators = 0, nil, nil
		return build(self, big.NewInt(0), self, big.NewInt(0), nil), "val:tiny-token", nil
	case 4: // self fully withdrawn, delegations remain
		self = big.NewInt(0)
		token, stake, dstk := wf()
		return build(token, stake, self, big.NewInt(0), dstk), "val:self-zero", delegators
	case 5: // inconsistent: Stake smaller than the sum of parts
		token, stake, dstk := wf()
		if stake.Sign() > 0 {
			stake = new(big.Int).SetUint64(1 + r.U64()%stake.Uint64())
		}
		return build(token, stake, self, stakeOf(self), dstk), "val:stake-inconsistent", delegators
	case 6: // full risk obligation
		risk = 10000
		token, stake, dstk := wf()
		return build(token, stake, self, stakeOf(self), dstk), "val:risk-full", delegators
	default: // huge stake relative to token (per = 0)
		token, _, dstk := wf()
		return build(token, new(big.Int).Add(token, big.NewInt(7)), self, stakeOf(self), dstk), "val:stake-huge", delegators
	}
}

func genRecs(r *vh.RNG, val common.Address, delegators []common.Address, others []common.Address) []string {
	var out []string
	n := r.Weighted([]int{35, 25, 20, 10, 10})
	for i := 0; i < n; i++ {
		v := val
		if r.Chance(15) && len(others) > 0 {
			v = others[r.Intn(len(others))]
		}
		d := common.Address{}
		switch r.Intn(4) {
		case 0, 1:
		case 2:
			if len(delegators) > 0 {
				d = delegators[r.Intn(len(delegators))]
			}
		case 3:
			d = common.BigToAddress(big.NewInt(0xee))
		}
		fin := 0
		if r.Chance(15) {
			fin = 1
		}
		var final *big.Int
		switch r.Intn(5) {
		case 0:
			final = big.NewInt(0)
		case 1:
			final = big.NewInt(int64(r.Intn(100)))
		default:
			final = randToken(r)
		}
		out = append(out, fmt.Sprintf("REC %x %x %d %s", v.Bytes(), d.Bytes(), fin, final))
	}
	return out
}

// genEvidence produces one E line aimed at position pos of the look-back set of round `round`.
func genEvidence(r *vh.RNG, s *scenario, parent uint64) (line string, story string) {
	round := parent
	cert := r.Chance(20)
	vt := []int{2, 3, 2, 3, 1, 0, 7}[r.Intn(7)]
	if cert {
		vt = 5
	}
	set, keys, ok := s.expectedLookBack(round, cert)
	idxRI := uint32([]int{0, 0, 1, 2, 7, 300, 65536}[r.Intn(7)])
	pos := 0
	key := 0
	if ok && len(set) > 0 {
		pos = r.Intn(len(set))
		if keys[pos] != "-" && keys[pos] != "99" {
			fmt.Sscan(keys[pos], &key)
		} else {
			key = r.Intn(nBlsKeys)
			if r.Chance(70) { // mostly aim at validators that can sign
				for p := range set {
					if keys[p] != "-" && keys[p] != "99" {
						pos = p
						fmt.Sscan(keys[p], &key)
						break
					}
				}
			}
		}
	}
	typ := staking.EvidenceTypeDoubleSignV5
	sg := func(k int, h []byte, rd uint64, ix uint32, kind int) string {
		return fmt.Sprintf("%x S:%d:%x:%d", h, k, payloadBytes(h, rd, ix), kind)
	}
	a, b, c := 1+r.Intn(5), 6+r.Intn(5), 11+r.Intn(5)
	kind := vt
	if kind < 2 || kind > 5 {
		kind = 2
	}
	mk := func(pairs ...string) string {
		return fmt.Sprintf("E %s S %d %d %d %d %d %s", typ, round, idxRI, pos, vt, len(pairs), strings.Join(pairs, " "))
	}
	switch r.Weighted([]int{24, 8, 10, 12, 8, 8, 8, 6, 6, 5, 5}) {
	case 0:
		story = "ev:equivocation"
		line = mk(sg(key, hashN(a), round, idxRI, kind), sg(key, hashN(b), round, idxRI, kind))
	case 1:
		story = "ev:duplicate-pair"
		line = mk(sg(key, hashN(a), round, idxRI, kind), sg(key, hashN(a), round, idxRI, kind))
	case 2:
		story = "ev:cross-kind"
		if r.Bool() {
			line = mk(sg(key, hashN(a), round, idxRI, 2), sg(key, hashN(b), round, idxRI, 3))
		} else {
			line = mk(sg(key, hashN(a), round, idxRI, 2+r.Intn(2)), sg(key, hashN(0), round, idxRI, 4))
		}
	case 3:
		story = "ev:forged"
		good := sg(key, hashN(a), round, idxRI, kind)
		var bad string
		switch r.Intn(7) {
		case 0:
			bad = fmt.Sprintf("%x G:%x", hashN(b), r.Bytes(48))
		case 1:
			bad = fmt.Sprintf("%x G:%x", hashN(b), r.Bytes(r.Intn(60)))
		case 2: // other key
			bad = sg((key+1+r.Intn(nBlsKeys-1))%nBlsKeys, hashN(b), round, idxRI, kind)
		case 3: // signed for another round
			bad = fmt.Sprintf("%x S:%d:%x:%d", hashN(b), key, payloadBytes(hashN(b), round+1, idxRI), kind)
		case 4: // signed for another index
			bad = fmt.Sprintf("%x S:%d:%x:%d", hashN(b), key, payloadBytes(hashN(b), round, idxRI+1), kind)
		case 5: // signature of another hash
			bad = fmt.Sprintf("%x S:%d:%x:%d", hashN(b), key, payloadBytes(hashN(c), round, idxRI), kind)
		default: // round encoded with 8 fixed bytes instead of big.Int.Bytes()
			p := append(append([]byte{}, hashN(b)...), 0, 0, 0, 0, byte(round>>24), byte(round>>16), byte(round>>8), byte(round), byte(idxRI>>24), byte(idxRI>>16), byte(idxRI>>8), byte(idxRI))
			bad = fmt.Sprintf("%x S:%d:%x:%d", hashN(b), key, p, kind)
		}
		if r.Bool() {
			line = mk(good, bad)
		} else {
			line = mk(bad, good)
		}
	case 4:
		story = "ev:wrong-index"
		other := []int{pos + 1, pos + 2, len(set), len(set) + 5, 1 << 20, 4294967295}[r.Intn(6)]
		line = fmt.Sprintf("E %s S %d %d %d %d 2 %s %s", typ, round, idxRI, other, vt, sg(key, hashN(a), round, idxRI, kind), sg(key, hashN(b), round, idxRI, kind))
	case 5:
		story = "ev:wrong-round"
		rd := []uint64{parent + 1, parent - 1, parent + 1000, parent - 120, parent - 121, 0, parent + 9, parent - 2, parent - 3, parent - 4, parent - 10, parent - 11}[r.Intn(12)]
		if rd > 1<<62 {
			rd = 0
		}
		line = fmt.Sprintf("E %s S %d %d %d %d 2 %s %s", typ, rd, idxRI, pos, vt, sg(key, hashN(a), rd, idxRI, kind), sg(key, hashN(b), rd, idxRI, kind))
	case 6:
		story = "ev:many-pairs"
		switch r.Intn(4) {
		case 0:
			line = mk(sg(key, hashN(a), round, idxRI, kind), sg(key, hashN(b), round, idxRI, kind), sg(key, hashN(c), round, idxRI, kind))
		case 1:
			line = mk(sg(key, hashN(a), round, idxRI, kind), sg(key, hashN(a), round, idxRI, kind), sg(key, hashN(b), round, idxRI, kind))
		case 2:
			line = mk(sg(key, hashN(a), round, idxRI, kind), sg(key, hashN(b), round, idxRI, kind), fmt.Sprintf("%x G:%x", hashN(c), r.Bytes(48)))
		default:
			line = mk(sg(key, hashN(a), round, idxRI, kind), sg(key, hashN(a), round, idxRI, kind), sg(key, hashN(a), round, idxRI, kind))
		}
	case 7:
		story = "ev:few-pairs"
		if r.Bool() {
			line = mk(sg(key, hashN(a), round, idxRI, kind))
		} else {
			line = mk()
		}
	case 8:
		story = "ev:wrong-type"
		t := []string{staking.EvidenceTypeDoubleSign, staking.EvidenceTypeInactive, "-", "DoubleSignV5"}[r.Intn(4)]
		line = fmt.Sprintf("E %s S %d %d %d %d 2 %s %s", t, round, idxRI, pos, vt, sg(key, hashN(a), round, idxRI, kind), sg(key, hashN(b), round, idxRI, kind))
	case 9:
		story = "ev:malformed-blob"
		d := staking.EvidenceDoubleSignV5{Round: round, RoundIndex: idxRI, SignerIdx: uint32(pos), VoteType: uint8(vt), Signs: []*staking.SignInfo{
			{Hash: common.BytesToHash(hashN(a)), Sign: blsSign(key, payloadBytes(hashN(a), round, idxRI))},
			{Hash: common.BytesToHash(hashN(b)), Sign: blsSign(key, payloadBytes(hashN(b), round, idxRI))}}}
		body, _ := rlp.EncodeToBytes(d)
		switch r.Intn(6) {
		case 0:
			body = body[:r.Intn(len(body))]
		case 1:
			body = append(body, byte(r.U64()))
		case 2:
			body[r.Intn(len(body))] ^= byte(1 << uint(r.Intn(8)))
		case 3:
			body = r.Bytes(r.Intn(40))
		case 4: // an empty list / empty string in place of a pair
			raw, _ := rlp.EncodeToBytes([]interface{}{round, idxRI, uint32(pos), uint8(vt), []interface{}{[]interface{}{}, []byte{}}})
			body = raw
		default: // hash of 31 bytes
			raw, _ := rlp.EncodeToBytes([]interface{}{round, idxRI, uint32(pos), uint8(vt), []interface{}{[]interface{}{hashN(a)[:31], d.Signs[0].Sign}, []interface{}{hashN(b), d.Signs[1].Sign}}})
			body = raw
		}
		line = fmt.Sprintf("E %s R -%s", typ, hex.EncodeToString(body))
	default:
		story = "ev:other-validators-key"
		// pairs validly signed, but by a key that is not the indexed validator's
		ok2 := (key + 1 + r.Intn(nBlsKeys-1)) % nBlsKeys
		line = mk(sg(ok2, hashN(a), round, idxRI, kind), sg(ok2, hashN(b), round, idxRI, kind))
	}
	return
}

// reencode returns another encoding of the same two-pair evidence: pairs swapped, and/or another claimed vote kind
// (the blob, hence any hash of it, differs; the equivocation is the same).
func reencode(r *vh.RNG, line string) string {
	f := strings.Fields(line)
	if len(f) != 12 || f[2] != "S" || f[7] != "2" {
		return ""
	}
	g := append([]string{}, f...)
	g[8], g[9], g[10], g[11] = f[10], f[11], f[8], f[9]
	if r.Bool() && f[6] != "5" {
		g[6] = []string{"2", "3", "4", "0"}[r.Intn(4)]
	}
	return strings.Join(g, " ")
}

// genUnit produces one U case.
func genUnit(r *vh.RNG, s *scenario, dist func(string)) []string {
	parent := s.head
	switch r.Intn(12) {
	case 0:
		parent = s.head - uint64(1+r.Intn(3))
	case 1:
		parent = 31 + uint64(r.Intn(3))
	case 2:
		parent = s.head + uint64(1+r.Intn(8))
	case 3:
		parent = s.head + 9 + uint64(r.Intn(50)) // VersionForRound fails: header r-8 does not exist
	case 4:
		parent = uint64(r.Intn(20))
	}
	hdr := parent + 1
	if r.Chance(10) {
		hdr = parent + uint64(r.Intn(400))
	}
	lines := []string{fmt.Sprintf("U %d %d", parent, hdr)}
	if r.Chance(35) {
		// another parameter table: penalty fraction, expel rounds, expiry window (small windows reach the boundary)
		frac := []uint64{0, 1, 2, 7, 33, 100}[r.Intn(6)]
		lines = append(lines, fmt.Sprintf("CFG %d %d %d", frac, []uint64{0, 1, 256, 100000}[r.Intn(4)], []uint64{0, 1, 3, 10, 120}[r.Intn(5)]))
		dist("cfg:varied")
	}
	st, _, err := s.k.A.NextState()
	if err != nil {
		panic(err)
	}
	var all []common.Address
	cur := map[common.Address]string{}
	for _, v := range st.GetValidatorsForUpdate() {
		all = append(all, v.MainAddress())
		cur[v.MainAddress()] = valLine(v)
	}
	for _, a := range all {
		if r.Chance(6) {
			dist("val:removed")
			continue // removed from the current state
		}
		l, mode, dl := genVal(r, a, cur[a])
		dist(mode)
		lines = append(lines, l)
		if r.Chance(60) {
			lines = append(lines, genRecs(r, a, dl, all)...)
		}
	}
	n := 1 + r.Weighted([]int{40, 30, 20, 10})
	for i := 0; i < n; i++ {
		l, story := genEvidence(r, s, parent)
		dist(story)
		lines = append(lines, l)
		if r.Chance(12) { // the same evidence twice in one list (once-per-validator map)
			lines = append(lines, l)
			dist("ev:repeated-in-list")
		}
		if re := reencode(r, l); re != "" && r.Chance(20) { // the same equivocation in another encoding
			lines = append(lines, re)
			dist("ev:re-encoded-in-list")
		}
	}
	return lines
}

// genTake produces one T case: takePenalty on one crafted validator with an arbitrary amount.
func genTake(r *vh.RNG, s *scenario, dist func(string)) []string {
	st, _, err := s.k.A.NextState()
	if err != nil {
		panic(err)
	}
	vs := st.GetValidatorsForUpdate()
	target := vs[r.Intn(len(vs))]
	var all []common.Address
	for _, v := range vs {
		all = append(all, v.MainAddress())
	}
	var lines []string
	var tl string
	var dl []common.Address
	for _, v := range vs {
		if v.MainAddress() == target.MainAddress() {
			var mode string
			for {
				tl, mode, dl = genVal(r, v.MainAddress(), valLine(v))
				if mode != "val:as-on-chain" || r.Chance(30) {
					break
				}
			}
			dist(mode)
			lines = append(lines, tl)
		} else {
			lines = append(lines, valLine(v))
		}
	}
	lines = append(lines, genRecs(r, target.MainAddress(), dl, all)...)
	if r.Bool() {
		lines = append(lines, genRecs(r, target.MainAddress(), dl, all)...)
	}
	f := strings.Fields(tl)
	tok := bigOf(f[5])
	var amt *big.Int
	switch r.Intn(6) {
	case 0:
		amt = big.NewInt(int64(1 + r.Intn(100)))
	case 1:
		amt = new(big.Int).Add(tok, big.NewInt(int64(r.Intn(10)))) // more than everything
	case 2:
		amt = randToken(r)
	default:
		amt = new(big.Int).Div(new(big.Int).Mul(tok, big.NewInt(int64(1+r.Intn(30)))), big.NewInt(100))
	}
	if amt.Sign() <= 0 {
		amt = big.NewInt(1)
	}
	return append([]string{fmt.Sprintf("T %x %s", target.MainAddress().Bytes(), amt)}, lines...)
}
