package main

// Chain level: evidences travel through real blocks.  Builder path: the evidences sit in the staking module's pool of
// node A, A's worker-equivalent builds the block (EndBlock isSeal=true writes header.SlashData), then A and an
// independent node B import it (replaySlashing).  Forged path: the proposer writes an arbitrary evidence list into
// SlashData (EndBlock isSeal=false on the builder's state), both nodes import.  After each block the validator records,
// withdraw queue and PenaltyTo balance of the imported head are compared with the model and judged by the oracle.
//
// Script format (replay files):  CHAIN <blocks> <tiny 0|1>  then steps:  STEP B|F  followed by E lines.

import (
	"encoding/hex"
	"fmt"
	"math/big"
	"strings"

	"github.com/youchainhq/go-youchain/common"
	"github.com/youchainhq/go-youchain/rlp"
	"github.com/youchainhq/go-youchain/staking"

	"verifharness/internal/vh"
)

type chainRun struct {
	sc     *scenario
	drv    *vh.Driver
	script []string
	tiny   bool
}

func newChainRun(drv *vh.Driver, blocks int, tiny bool) (*chainRun, error) {
	sc, err := newScenario(blocks, tiny)
	if err != nil {
		return nil, err
	}
	t := 0
	if tiny {
		t = 1
	}
	return &chainRun{sc: sc, drv: drv, script: []string{fmt.Sprintf("CHAIN %d %d", blocks, t)}, tiny: tiny}, nil
}

func (cr *chainRun) stop() { cr.sc.k.Stop() }

func orDash(s string) string {
	if s == "" || strings.ContainsAny(s, " \t\n") {
		return "-"
	}
	return s
}

// emptyBlock advances the chain by one block without evidence.
func (cr *chainRun) emptyBlock() error {
	k := cr.sc.k
	k.A.Staking.VerifClearPool()
	b, err := k.Build(cr.sc.vals[0].MainAddr(), nil, nil)
	if err != nil {
		return err
	}
	if b.Panic != "" {
		return &disagreeError{"building an evidence-free block panics: " + b.Panic}
	}
	if err := k.Import(b.Block); err != nil {
		return &disagreeError{"evidence-free block: " + err.Error()}
	}
	return nil
}

// pad: never let the checked block be a period end (rewards distribution, withdraw queue processing and inactivity
// slashing run there and are other properties' business)
func (cr *chainRun) pad() error {
	for (cr.sc.k.A.BC.CurrentBlock().NumberU64()+2)%cr.sc.yp.StakingTrieFrequency == 0 {
		if err := cr.emptyBlock(); err != nil {
			return err
		}
	}
	cr.sc.refreshSets()
	return nil
}

type stepInfo struct {
	letters string
	changed int
	slash   int
}

// step builds, imports and checks one block carrying the given evidences. mode "B" = builder pool, "F" = forged SlashData.
func (cr *chainRun) step(mode string, elines []string) ([]failure, *stepInfo, error) {
	sc, k := cr.sc, cr.sc.k
	if err := cr.pad(); err != nil {
		return nil, nil, err
	}
	cr.script = append(cr.script, "STEP "+mode)
	cr.script = append(cr.script, elines...)
	var rawSD []byte
	if mode == "X" {
		// raw SlashData bytes chosen by the proposer: the evidence list is whatever the real decoder makes of them
		// (replaySlashing: undecodable or empty list = error logged, nothing processed)
		if len(elines) != 1 || !strings.HasPrefix(elines[0], "SD ") {
			return nil, nil, fmt.Errorf("STEP X needs one SD line")
		}
		var derr error
		rawSD, derr = hex.DecodeString(strings.TrimPrefix(elines[0], "SD -"))
		if derr != nil {
			return nil, nil, derr
		}
		elines = nil
		var list []staking.Evidence
		if rlp.DecodeBytes(rawSD, &list) == nil {
			for _, e := range list {
				elines = append(elines, fmt.Sprintf("E %s R -%x", orDash(e.Type), e.Data))
			}
		}
	}
	c, err := parseCase(append([]string{fmt.Sprintf("U %d %d", sc.head, sc.head+1)}, elines...))
	if err != nil {
		return nil, nil, err
	}
	info := &stepInfo{}
	before, err := k.B.HeadState()
	if err != nil {
		return nil, nil, err
	}
	// the state a new block starts from has the same validator trie as the head
	lines := []string{"RESET", sc.cfgLine()}
	lines = append(lines, sc.setLines...)
	lines = append(lines, stateLines(before, sc.yp)...)
	for _, e := range c.evs {
		lines = append(lines, e.model)
	}
	for _, l := range lines {
		resp, err := cr.drv.Ask(l)
		if err != nil {
			return nil, nil, err
		}
		if resp != "ok" {
			return nil, nil, fmt.Errorf("driver refused %q: %s", l, resp)
		}
	}
	lo, err := cr.drv.Ask(fmt.Sprintf("RUN %d %d", sc.head, sc.head+1))
	if err != nil {
		return nil, nil, err
	}
	lf := strings.SplitN(lo, " ", 3)
	if len(lf) >= 2 {
		info.letters = lf[1]
	}
	r := &uresult{before: takeSnap(before, sc), letters: info.letters}
	var fs []failure

	var evs []staking.Evidence
	for _, e := range c.evs {
		evs = append(evs, e.ev)
	}
	k.A.Staking.VerifClearPool()
	var forged []byte
	if mode == "X" {
		forged = rawSD
		if len(forged) == 0 {
			forged = []byte{} // non-nil: replay path with empty SlashData
		}
	} else if mode == "F" {
		forged, err = rlp.EncodeToBytes(evs)
		if err != nil {
			return nil, nil, err
		}
		if len(evs) == 0 {
			forged = []byte{0xc0}
		}
	} else {
		for _, e := range evs {
			k.A.Staking.VerifAddEvidence(e)
		}
	}
	w, err := k.Begin(sc.vals[0].MainAddr())
	if err != nil {
		return nil, nil, err
	}
	b, err := w.Finish(forged)
	if err != nil {
		return nil, nil, err
	}
	if b.Panic != "" {
		r.crashed, r.panicMsg = true, b.Panic
		if lf[0] != "crash" {
			fs = append(fs, failure{"correspondence", "", "EndBlock panics (" + b.Panic + ") but the model says " + lo})
		}
		fs = append(fs, sc.oracle(c, r)...)
		// the chain did not advance; clear the pool so that the run can go on
		k.A.Staking.VerifClearPool()
		return fs, info, nil
	}
	if lf[0] == "crash" {
		fs = append(fs, failure{"correspondence", "", "the model predicts a panic, EndBlock returned normally"})
	}
	goLists := ""
	if mode == "B" {
		var conf []staking.Evidence
		if sd := b.Block.Header().SlashData; len(sd) > 0 {
			if err := rlp.DecodeBytes(sd, &conf); err != nil {
				fs = append(fs, failure{"oracle", "", "the builder wrote SlashData that does not decode: " + err.Error()})
			}
		}
		info.slash = len(conf)
		goLists = fmt.Sprintf("C [%s] P [%s]", ints(matchIdx(c.evs, conf)), ints(matchIdx(c.evs, k.A.Staking.VerifPoolEvidences())))
	}
	if err := k.Import(b.Block); err != nil {
		m := ""
		if strings.Contains(info.letters, "d") {
			m = "zero-penalty-expel"
		}
		fs = append(fs, failure{"oracle", m, "a block built from the evidence pool is not accepted by the nodes that replay its SlashData: " + err.Error()})
		k.A.Staking.VerifClearPool()
		return fs, info, nil
	}
	after, err := k.B.HeadState()
	if err != nil {
		return nil, nil, err
	}
	r.after = takeSnap(after, sc)
	for a, bv := range r.before.vals {
		if av := r.after.vals[a]; av != nil && av.canon != bv.canon {
			info.changed++
			if bv.token.Cmp(av.token) != 0 {
				r.affected = append(r.affected, a)
			}
		}
	}
	if len(lf) == 3 && lf[0] == "ok" {
		// model: "C [..] P [..] A [..] V ... Q [..] P n"
		ml := lf[2]
		i := strings.Index(ml, " A [")
		j := strings.Index(ml, "] V ")
		if j < 0 {
			j = strings.Index(ml, "] Q ")
		}
		if i >= 0 && j >= 0 {
			mLists, mState := ml[:i], ml[j+2:]
			if mode == "B" && mLists != goLists {
				fs = append(fs, failure{"correspondence", "", "confirmed/pending lists differ\n  go:   " + goLists + "\n  lean: " + mLists})
			}
			if gs := stateCanon(after, sc.yp); gs != mState {
				fs = append(fs, failure{"correspondence", "", "state after the block differs\n  go:   " + gs + "\n  lean: " + mState})
			}
		}
	}
	fs = append(fs, sc.oracle(c, r)...)
	return fs, info, nil
}

// runChainScript re-executes a recorded script; it returns the failures of the last step that fails (or nil).
func runChainScript(drv *vh.Driver, body []string) ([]failure, error) {
	if len(body) == 0 {
		return nil, fmt.Errorf("empty script")
	}
	var blocks, tiny int
	if _, err := fmt.Sscanf(body[0], "CHAIN %d %d", &blocks, &tiny); err != nil {
		return nil, err
	}
	cr, err := newChainRun(drv, blocks, tiny == 1)
	if err != nil {
		return nil, err
	}
	defer cr.stop()
	var all []failure
	i := 1
	for i < len(body) {
		if !strings.HasPrefix(body[i], "STEP ") {
			return nil, fmt.Errorf("expected STEP, got %q", body[i])
		}
		mode := strings.TrimPrefix(body[i], "STEP ")
		j := i + 1
		for j < len(body) && !strings.HasPrefix(body[j], "STEP ") {
			j++
		}
		fs, _, err := cr.step(mode, body[i+1:j])
		if err != nil {
			return nil, err
		}
		all = append(all, fs...)
		i = j
	}
	return all, nil
}

// genRawSlashData: what an adversarial proposer may put into header.SlashData besides a well-formed doublesignv5 list:
// undecodable bytes, an empty list, evidences of the other (ignored) types — "inactive" with boundary rounds, the
// deprecated "doublesign" — mixed with a real one.
func genRawSlashData(r *vh.RNG, s *scenario) []byte {
	real, _ := genEvidence(r, s, s.head)
	ei, err := buildEvidence(strings.Fields(real))
	if err != nil {
		panic(err)
	}
	inact := func(round uint64, n int) staking.Evidence {
		d := staking.EvidenceInactive{Round: round}
		for i := 0; i < n; i++ {
			d.Validators = append(d.Validators, s.vals[r.Intn(len(s.vals))].MainAddr())
		}
		return staking.NewEvidence(d)
	}
	rounds := []uint64{0, 1, 14, 15, 16, 20, s.head - 1, s.head, s.head + 1, s.head + 100, 1<<64 - 1}
	switch r.Intn(7) {
	case 0:
		return r.Bytes(r.Intn(60))
	case 1:
		return []byte{0xc0}
	case 2:
		return []byte{}
	case 3:
		b, _ := rlp.EncodeToBytes([]staking.Evidence{inact(rounds[r.Intn(len(rounds))], r.Intn(4))})
		return b
	case 4:
		b, _ := rlp.EncodeToBytes([]staking.Evidence{inact(rounds[r.Intn(len(rounds))], r.Intn(4)), ei.ev, inact(s.head, 1)})
		return b
	case 5:
		old := staking.NewEvidence(staking.EvidenceDoubleSign{Round: new(big.Int).SetUint64(s.head), RoundIndex: 0, Signs: map[common.Hash][]byte{common.BytesToHash(hashN(1)): r.Bytes(65), common.BytesToHash(hashN(2)): r.Bytes(65)}})
		b, _ := rlp.EncodeToBytes([]staking.Evidence{old, ei.ev})
		return b
	default:
		b, _ := rlp.EncodeToBytes([]staking.Evidence{ei.ev})
		if len(b) > 3 {
			b = b[:len(b)-1-r.Intn(3)]
		}
		return b
	}
}

func replayChain(drv *vh.Driver, body []string) (bool, string) {
	fs, err := runChainScript(drv, body)
	if err != nil {
		return true, "replay error: " + err.Error()
	}
	if len(fs) == 0 {
		return false, "no failure"
	}
	var ws []string
	for _, f := range fs {
		ws = append(ws, f.kind+"/"+f.matcher+": "+f.what)
	}
	return true, strings.Join(ws, "\n")
}

var chainReported = map[string]int{}

// disagreeInChain: a builder/importer disagreement on a padding block of a running chain script becomes an oracle failure
// (replay = the script so far); the chain is dropped.  false = the error is something else.
func disagreeInChain(c *vh.Ctx, cr *chainRun, i int, err error) bool {
	de, ok := err.(*disagreeError)
	if !ok {
		return false
	}
	chainReported["oracle/disagree"]++
	c.Res.Dist("failure:chain:builder-importer-disagree")
	if chainReported["oracle/disagree"] <= 2 {
		rp := vh.WriteReplay(c.ReplayDir, "C05", fmt.Sprintf("chain%d-disagree-%d", i, c.Seed), c.Seed,
			[]string{"chain script", "builder/importer disagree on a block (may depend on Go map order: `replay` re-runs chain scripts up to 5 times)", de.what}, cr.script)
		c.Res.Fail("oracle", "", "builder/importer disagree on a block: "+de.what, rp)
	}
	cr.stop()
	return true
}

func chainLevel(c *vh.Ctx, drv *vh.Driver) error {
	res := c.Res
	steps := c.N(40, 400)
	var cr *chainRun
	var err error
	slashed := 0
	lastAccepted := ""
	for i := 0; i < steps; i++ {
		if cr == nil || slashed >= 4 {
			lastAccepted = ""
			if cr != nil {
				cr.stop()
			}
			nb := 36 + c.R.Intn(20)
			cr = nil
			for try := 0; try < scenarioTries && cr == nil; try++ {
				cr, err = newChainRun(drv, nb, false)
				if de, ok := err.(*disagreeError); ok {
					if try == 0 {
						reportScenarioDisagreement(c, nb, false, de.what)
					}
					cr = nil
					continue
				}
				if err != nil {
					return err
				}
			}
			if cr == nil {
				return nil // reported; no chain can be built
			}
			slashed = 0
		}
		cr.sc.refreshSets()
		mode := "B"
		if c.R.Chance(40) {
			mode = "F"
		}
		if c.R.Chance(15) {
			if err := cr.pad(); err != nil {
				if disagreeInChain(c, cr, i, err) {
					cr = nil
					continue
				}
				return err
			}
			sd := genRawSlashData(c.R, cr.sc)
			res.Dist("chain:raw-slashdata")
			fs, _, err := cr.step("X", []string{"SD -" + hex.EncodeToString(sd)})
			if err != nil && disagreeInChain(c, cr, i, err) {
				cr = nil
				continue
			}
			if err != nil {
				return fmt.Errorf("chain step %d (raw SlashData): %v\n%s", i, err, strings.Join(cr.script, "\n"))
			}
			res.TracesVsImpl++
			res.Dist("case:chain-block-X")
			res.Count(strings.Join(cr.script, "\n"), true)
			for _, f := range fs {
				key := f.kind + "/" + f.matcher
				chainReported[key]++
				if chainReported[key] > 2 {
					continue
				}
				rp := vh.WriteReplay(c.ReplayDir, "C05", fmt.Sprintf("chainx%d-%s-%d", i, strings.ReplaceAll(key, "/", "-"), c.Seed), c.Seed,
					[]string{"chain script", "failure " + f.kind + " " + f.matcher, strings.ReplaceAll(f.what, "\n", " | ")}, cr.script)
				res.Fail(f.kind, f.matcher, f.what, rp)
			}
			if len(fs) > 0 {
				cr.stop()
				cr = nil
			}
			continue
		}
		n := 1 + c.R.Weighted([]int{50, 30, 20})
		if err := cr.pad(); err != nil {
			if disagreeInChain(c, cr, i, err) {
				cr = nil
				continue
			}
			return err
		}
		var el []string
		if lastAccepted != "" && c.R.Chance(50) {
			// the equivocation punished in an earlier block, offered again (same blob or another encoding): its round is
			// no longer the parent round, so it must never be punished a second time
			re := lastAccepted
			if x := reencode(c.R, lastAccepted); x != "" && c.R.Bool() {
				re = x
			}
			el = append(el, re)
			res.Dist("chain:resubmitted-after-acceptance")
		}
		for j := 0; j < n; j++ {
			l, story := genEvidence(c.R, cr.sc, cr.sc.head)
			res.Dist("chain:" + story)
			el = append(el, l)
		}
		fs, info, err := cr.step(mode, el)
		if err != nil && disagreeInChain(c, cr, i, err) {
			cr = nil
			continue
		}
		if err != nil {
			return fmt.Errorf("chain step %d: %v\n%s", i, err, strings.Join(cr.script, "\n"))
		}
		res.TracesVsImpl++
		res.Dist("case:chain-block-" + mode)
		if ls := strings.Split(info.letters, ","); len(ls) == len(el) {
			for j, l := range ls {
				if l == "c" || l == "d" {
					lastAccepted = el[j]
				}
			}
		}
		slashed += info.changed
		nt := false
		for _, l := range strings.Split(info.letters, ",") {
			if l != "" {
				res.Dist("chain-verdict:" + l)
			}
			if l == "c" || l == "d" || l == "x9" || l == "x10" || l == "!" {
				nt = true
			}
		}
		res.Count(strings.Join(cr.script, "\n"), nt)
		if len(fs) > 0 {
			seen := map[string]bool{}
			for _, f := range fs {
				key := f.kind + "/" + f.matcher
				if seen[key] {
					continue
				}
				seen[key] = true
				chainReported[key]++
				res.Dist("failure:chain:" + key)
				if chainReported[key] > 2 {
					continue // the first two of a kind are written; the rest only counted (the result file is bounded)
				}
				rp := vh.WriteReplay(c.ReplayDir, "C05", fmt.Sprintf("chain%d-%s-%d", i, strings.ReplaceAll(key, "/", "-"), c.Seed), c.Seed,
					[]string{"chain script", "failure " + f.kind + " " + f.matcher, strings.ReplaceAll(f.what, "\n", " | ")}, cr.script)
				res.Fail(f.kind, f.matcher, f.what, rp)
			}
			// a failed step may leave the two nodes apart: start a fresh chain
			cr.stop()
			cr = nil
		}
	}
	if cr != nil {
		cr.stop()
	}
	return nil
}

// ---- probes of the listed findings (chain level, fixed scripts) ------------------------------------------

func probeScript(tiny int, valIdx int, key int, mk func(round uint64, pos int, key int) string) func(drv *vh.Driver) ([]failure, error) {
	return func(drv *vh.Driver) ([]failure, error) {
		cr, err := newChainRun(drv, 36, tiny == 1)
		if err != nil {
			return nil, err
		}
		defer cr.stop()
		if err := cr.pad(); err != nil {
			return nil, err
		}
		set, _, _ := cr.sc.expectedLookBack(cr.sc.head, false)
		pos := -1
		for i, a := range set {
			if a == cr.sc.vals[valIdx].MainAddr() {
				pos = i
			}
		}
		if pos < 0 {
			return nil, fmt.Errorf("probe: validator %d not in the look-back set", valIdx)
		}
		fs, _, err := cr.step("B", []string{mk(cr.sc.head, pos, key)})
		return fs, err
	}
}

func evLine(round uint64, pos int, pairs ...string) string {
	return fmt.Sprintf("E doublesignv5 S %d 0 %d 2 %d %s", round, pos, len(pairs), strings.Join(pairs, " "))
}
func pair(key int, h []byte, round uint64, kind int) string {
	return fmt.Sprintf("%x S:%d:%x:%d", h, key, payloadBytes(h, round, 0), kind)
}

func probes(c *vh.Ctx, sc *scenario, drv *vh.Driver) {
	type pr struct {
		id, matcher, what string
		run               func(drv *vh.Driver) ([]failure, error)
	}
	ps := []pr{
		{"F-C05a", "duplicate-pair-evidence", "one honest prevote of validator 1 listed twice, through the builder's pool and a second node's import",
			probeScript(0, 1, 1, func(r uint64, pos, k int) string {
				return evLine(r, pos, pair(k, hashN(1), r, 2), pair(k, hashN(1), r, 2))
			})},
		{"F-C05b", "cross-kind-evidence", "honest prevote(A) and honest precommit(B) of validator 1 in one (round, index), through the builder's pool and a second node's import",
			probeScript(0, 1, 1, func(r uint64, pos, k int) string {
				return evLine(r, pos, pair(k, hashN(1), r, 2), pair(k, hashN(2), r, 3))
			})},
		{"F-C05c", "stake-zero-division", "real equivocation of an offline house validator holding 60 LU (Stake = 0 < Token)",
			probeScript(1, 7, 5, func(r uint64, pos, k int) string {
				return evLine(r, pos, pair(k, hashN(1), r, 2), pair(k, hashN(2), r, 2))
			})},
		{"F-C05d", "zero-penalty-expel", "real equivocation of an offline house validator holding 40 LU (penalty amount 0)",
			probeScript(1, 8, 6, func(r uint64, pos, k int) string {
				return evLine(r, pos, pair(k, hashN(1), r, 2), pair(k, hashN(2), r, 2))
			})},
	}
	for _, p := range ps {
		fs, err := p.run(drv)
		rep, what := false, p.what
		if de, ok := err.(*disagreeError); ok {
			reportScenarioDisagreement(c, 36, true, "probe "+p.id+": "+de.what)
		} else if err != nil {
			what += " — probe could not run: " + err.Error()
		}
		for _, f := range fs {
			if f.matcher == p.matcher {
				rep = true
				what += " — " + strings.ReplaceAll(f.what, "\n", " | ")
			} else {
				// anything else a probe trips over is a failure in its own right
				c.Res.Fail(f.kind, f.matcher, "probe "+p.id+": "+f.what, "")
			}
		}
		c.Res.Probes = append(c.Res.Probes, vh.Probe{ID: p.id, Reproduced: rep, What: what})
	}
}
