package main

// End-to-end leg C02 -> C05: the votes come from the REAL Voter (hook consensus/ucon/verif_hooks_c02.go) driven through
// consensus histories with crashes and restarts; every vote that really left the node is BLS-signed by the harness
// (what VoteBLSMgr.SignVote does with the same payload) and every pair of votes of one (round, index) with different
// hashes is assembled into double-sign evidence and offered to the real processEvidences.  An honest Voter must never
// be convicted; the only accepted pairs must be the F-C05b ones (different kinds, or two next-index votes).
//
// Script lines (replay format, header "E2E"):
//	VP ok hash prio | VS kind sel w vt T | VK n after | VR | VX round index step cert | VM kind round index hash prio sender w status vt T

import (
	"crypto/ecdsa"
	"fmt"
	"math/big"
	"sort"
	"strings"

	"github.com/youchainhq/go-youchain/common"
	"github.com/youchainhq/go-youchain/consensus/ucon"
	"github.com/youchainhq/go-youchain/core/types"
	"github.com/youchainhq/go-youchain/crypto"
	"github.com/youchainhq/go-youchain/params"
	"github.com/youchainhq/go-youchain/youdb"

	"verifharness/internal/vh"
)

const e2eVal = 1 // scenario validator whose BLS key signs the Voter's votes

var e2eKeys []*ecdsa.PrivateKey

type e2eSeat struct {
	w, vt uint32
	T     uint64
}

type e2eNode struct {
	d                  *ucon.VerifVoter
	propOK             bool
	propHash, propPrio common.Hash
	seats              map[ucon.VoteType]*e2eSeat
	stakeT             uint64
	stakeVt            uint32
}

func newE2ENode() *e2eNode {
	if e2eKeys == nil {
		for i := 0; i < 7; i++ {
			k, err := crypto.ToECDSA(crypto.Keccak256([]byte(fmt.Sprintf("verif-c05-e2e-key-%d", i))))
			if err != nil {
				panic(err)
			}
			e2eKeys = append(e2eKeys, k)
		}
	}
	n := &e2eNode{seats: map[ucon.VoteType]*e2eSeat{}}
	for _, k := range []ucon.VoteType{ucon.Prevote, ucon.Precommit, ucon.NextIndex, ucon.Certificate} {
		n.seats[k] = &e2eSeat{w: 1, vt: 1, T: 1}
	}
	env := &ucon.VerifEnv{}
	env.IsValidator = func(round *big.Int, ri uint32, step uint32, lb params.LookBackType) (bool, *ucon.StepView) {
		s := n.seats[ucon.VoteType(step)]
		if s == nil {
			return false, nil
		}
		return true, &ucon.StepView{SortitionProof: []byte{1}, SubUsers: s.w, ValidatorType: params.ValidatorKind(s.vt), Threshold: s.T}
	}
	env.MaxPriority = func(round *big.Int, ri uint32) (common.Hash, common.Hash, bool) {
		return n.propPrio, n.propHash, n.propOK
	}
	env.BlockInCache = func(h, prio common.Hash) *types.Block { return ucon.VerifBlock(h) }
	env.Stake = func(round *big.Int, addr common.Address, lb params.LookBackType) (uint64, params.ValidatorKind, error) {
		return n.stakeT, params.ValidatorKind(n.stakeVt), nil
	}
	env.VerifySortition = func(pub *ecdsa.PublicKey, data *ucon.SortitionData, lb params.LookBackType) error { return nil }
	n.d = ucon.NewVerifVoter(youdb.NewMemDatabase(), e2eKeys[0], env)
	return n
}

type sentVote struct {
	kind  int
	round uint64
	index uint32
	hash  common.Hash
}

func e2eHash(n uint64) common.Hash {
	if n == 0 {
		return common.Hash{}
	}
	return common.BytesToHash(hashN(int(n)))
}

// execVoterScript runs the script on the real Voter and returns every vote that left the node.
func execVoterScript(lines []string) (sent []sentVote, err error) {
	defer func() {
		if r := recover(); r != nil {
			err = fmt.Errorf("voter driver panic: %v", r)
		}
	}()
	n := newE2ENode()
	for _, l := range lines {
		f := strings.Fields(l)
		if len(f) == 0 {
			continue
		}
		var st ucon.VerifStep
		switch f[0] {
		case "VP":
			n.propOK, n.propHash, n.propPrio = f[1] == "1", e2eHash(u64(f[2])), common.BigToHash(new(big.Int).SetUint64(u64(f[3])))
			continue
		case "VS":
			k := ucon.VoteType(u64(f[1]))
			if f[2] == "1" {
				n.seats[k] = &e2eSeat{w: uint32(u64(f[3])), vt: uint32(u64(f[4])), T: u64(f[5])}
			} else {
				n.seats[k] = nil
			}
			continue
		case "VK":
			n.d.CrashAtPut(int(u64(f[1])), f[2] == "1")
			continue
		case "VR":
			n.d.Restart()
			continue
		case "VX":
			st = n.d.Context(new(big.Int).SetUint64(u64(f[1])), uint32(u64(f[2])), uint32(u64(f[3])), f[4] == "1")
		case "VM":
			n.stakeVt, n.stakeT = uint32(u64(f[9])), u64(f[10])
			st = n.d.Vote(ucon.VerifVoteMsg{Kind: ucon.VoteType(u64(f[1])), Round: new(big.Int).SetUint64(u64(f[2])), RoundIndex: uint32(u64(f[3])),
				Hash: e2eHash(u64(f[4])), Priority: common.BigToHash(new(big.Int).SetUint64(u64(f[5]))), Signer: e2eKeys[1+int(u64(f[6]))%6],
				Votes: uint32(u64(f[7])), Status: int(u64(f[8]))})
		default:
			return nil, fmt.Errorf("bad e2e line %q", l)
		}
		for _, e := range st.Events {
			if e.Type == "send" && e.Round != nil && e.Round.IsUint64() {
				sent = append(sent, sentVote{int(e.Kind), e.Round.Uint64(), e.RoundIndex, e.Hash})
			}
		}
	}
	return sent, nil
}

// genVoterHistory: a consensus run around the scenario's head round (step timers in order, votes of other validators
// that reach quorums for a few hashes, changing proposals and sortition seats), with crashes at and between calls,
// restarts (the server begins the round again at index 1), jumped and repeated indices, new and lowered rounds.
func genVoterHistory(r *vh.RNG, head uint64, maxOps int) []string {
	var ops []string
	add := func(f string, a ...interface{}) { ops = append(ops, fmt.Sprintf(f, a...)) }
	round := head - uint64(r.Intn(3))
	index := uint64(1)
	hashes := []uint64{uint64(r.Range(1, 5)), uint64(r.Range(1, 5)), uint64(r.Range(1, 5))}[:r.Range(1, 3)]
	hash := func() uint64 {
		if r.Chance(12) {
			return 0
		}
		return hashes[r.Intn(len(hashes))]
	}
	T := uint64(r.Range(2, 10))
	cert := r.Chance(25)
	seat := func(k int) {
		sel := 1
		if r.Chance(12) {
			sel = 0
		}
		t := T
		if r.Chance(30) {
			t = uint64(r.Range(0, 3))
		}
		add("VS %d %d %d 1 %d", k, sel, r.Range(0, 4), t)
	}
	if r.Chance(85) {
		add("VP 1 %d %d", hashes[0], r.Range(1, 3))
	}
	for _, k := range []int{2, 3, 4, 5} {
		if r.Chance(60) {
			seat(k)
		}
	}
	ctx := func(step uint64) {
		c := 0
		if cert {
			c = 1
		}
		add("VX %d %d %d %d", round, index, step, c)
	}
	for len(ops) < maxOps {
		steps := []uint64{0, 1, 2, 4, 5}
		if r.Chance(15) {
			steps = []uint64{2, 4}
		}
		for _, st := range steps {
			if r.Chance(12) {
				add("VK %d %d", r.Range(1, 3), r.Intn(2))
			}
			ctx(st)
			nv := r.Range(0, 5)
			for k := 0; k < nv; k++ {
				kind := []int{2, 2, 3, 3, 4, 5}[r.Intn(6)]
				if st >= 4 && r.Bool() {
					kind = []int{3, 4, 5}[r.Intn(3)]
				}
				if r.Chance(8) {
					add("VK %d %d", r.Range(1, 3), r.Intn(2))
				}
				add("VM %d %d %d %d %d %d %d 2 1 %d", kind, round, index, hash(), r.Range(0, 3), r.Range(0, 5), r.Range(1, 4), T)
				if r.Chance(5) {
					add("VR")
					if r.Chance(85) {
						ctx(st)
					}
				}
			}
			switch r.Intn(12) {
			case 0:
				add("VR")
				if r.Chance(70) {
					add("VP 1 %d %d", hash(), r.Range(1, 3))
				}
				if r.Chance(60) {
					ctx(st)
				}
			case 1:
				add("VP %d %d %d", r.Intn(2), hash(), r.Range(0, 3))
			case 2:
				seat(r.Range(2, 5))
			}
		}
		switch r.Intn(12) {
		case 0, 1:
			add("VR")
			index = 1
			if r.Chance(60) {
				add("VP 1 %d %d", hash(), r.Range(1, 3))
			}
		case 2:
			if index > 1 {
				index--
			}
		case 3:
			index += uint64(r.Range(2, 3))
		case 4:
			round, index, cert = round+1, 1, r.Chance(25)
		case 5:
			if round > head-4 {
				round, index = round-1, uint64(r.Range(1, 3))
			}
		case 6:
		default:
			index++
		}
	}
	return ops
}

// slashableHonest: by the protocol one prevote, one precommit, one certificate vote and up to two next-index votes per
// (round, index).  It returns a description of the first breach, "" if the sent votes respect it.
func protocolBreach(sent []sentVote) string {
	type slot struct {
		r    uint64
		i    uint32
		kind int
	}
	hs := map[slot]map[common.Hash]bool{}
	for _, v := range sent {
		s := slot{v.round, v.index, v.kind}
		if hs[s] == nil {
			hs[s] = map[common.Hash]bool{}
		}
		hs[s][v.hash] = true
	}
	for s, m := range hs {
		lim := 1
		if s.kind == 4 {
			lim = 2
		}
		if len(m) > lim {
			return fmt.Sprintf("%d different hashes voted as kind %d in (round %d, index %d)", len(m), s.kind, s.r, s.i)
		}
	}
	return ""
}

// e2eCase runs one Voter script and offers every assembled evidence to the real acceptance code.
func (s *scenario) e2eCase(drv *vh.Driver, script []string, dist func(string)) ([]failure, int, error) {
	sent, err := execVoterScript(script)
	if err != nil {
		return nil, 0, err
	}
	dist(fmt.Sprintf("e2e:votes-sent:%s", bucketN(len(sent))))
	breach := protocolBreach(sent)
	type grp struct {
		r uint64
		i uint32
	}
	groups := map[grp][]sentVote{}
	for _, v := range sent {
		g := grp{v.round, v.index}
		dup := false
		for _, w := range groups[g] {
			if w.kind == v.kind && w.hash == v.hash {
				dup = true
			}
		}
		if !dup {
			groups[g] = append(groups[g], v)
		}
	}
	var gs []grp
	for g := range groups {
		gs = append(gs, g)
	}
	sort.Slice(gs, func(a, b int) bool { return gs[a].r < gs[b].r || gs[a].r == gs[b].r && gs[a].i < gs[b].i })
	key := s.valBls[e2eVal]
	addr := s.vals[e2eVal].MainAddr()
	var fs []failure
	offered := 0
	byRound := map[uint64][]string{}
	sameKind := map[uint64]bool{}
	for _, g := range gs {
		vs := groups[g]
		if g.r > s.head+8 {
			continue
		}
		for _, cert := range []bool{false, true} {
			set, _, ok := s.expectedLookBack(g.r, cert)
			pos := -1
			for i, a := range set {
				if a == addr {
					pos = i
				}
			}
			if !ok || pos < 0 {
				continue
			}
			vt := 2
			if cert {
				vt = 5
			}
			for a := 0; a < len(vs); a++ {
				for b := a + 1; b < len(vs); b++ {
					if len(byRound[g.r]) >= 8 {
						continue
					}
					if vs[a].hash == vs[b].hash {
						dist("e2e:pair:same-hash")
						if cert || offered%3 != 0 {
							continue // one vote seen under two kinds: offered now and then (must be dropped)
						}
					} else if vs[a].kind == vs[b].kind {
						dist(fmt.Sprintf("e2e:pair:same-kind-%d", vs[a].kind))
						if vs[a].kind != 4 {
							sameKind[g.r] = true
						}
					} else {
						dist("e2e:pair:cross-kind")
					}
					p := func(v sentVote) string {
						return fmt.Sprintf("%x S:%d:%x:%d", v.hash.Bytes(), key, payloadBytes(v.hash.Bytes(), g.r, g.i), v.kind)
					}
					byRound[g.r] = append(byRound[g.r], fmt.Sprintf("E doublesignv5 S %d %d %d %d 2 %s %s", g.r, g.i, pos, vt, p(vs[a]), p(vs[b])))
					offered++
				}
			}
		}
	}
	var rounds []uint64
	for r := range byRound {
		rounds = append(rounds, r)
	}
	sort.Slice(rounds, func(a, b int) bool { return rounds[a] < rounds[b] })
	for _, rd := range rounds {
		lines := append([]string{fmt.Sprintf("U %d %d", rd, rd+1)}, s.headValLines()...)
		lines = append(lines, byRound[rd]...)
		_, r, cfs, err := s.evaluate(drv, lines)
		if err != nil {
			return nil, offered, err
		}
		for _, f := range cfs {
			if f.kind == "correspondence" {
				fs = append(fs, f)
			}
		}
		b, a := r.before.vals[addr], r.after.vals[addr]
		if b != nil && a != nil && b.canon != a.canon {
			dist("e2e:convicted")
			if sameKind[rd] || breach != "" {
				fs = append(fs, failure{"oracle", "", "the REAL Voter, following the protocol through this history, emitted votes that were accepted as double-sign evidence against it (" + breach + "): it lost " +
					new(big.Int).Sub(b.token, a.token).String() + " and was expelled"})
			} else {
				fs = append(fs, failure{"oracle", "cross-kind-evidence", "votes the REAL Voter emitted in one (round, index) — different kinds, or two next-index votes — were accepted as double-sign evidence: it lost " +
					new(big.Int).Sub(b.token, a.token).String() + " and was expelled"})
			}
		}
	}
	if breach != "" && len(fs) == 0 {
		// the Voter broke the one-vote rule but nothing was assembled from it (round out of reach): still report
		fs = append(fs, failure{"oracle", "", "the REAL Voter emitted " + breach + " (evidence could not be assembled at this height)"})
	}
	return fs, offered, nil
}

func bucketN(n int) string {
	switch {
	case n == 0:
		return "0"
	case n < 5:
		return "1-4"
	case n < 15:
		return "5-14"
	}
	return "15+"
}

// headValLines: the validators exactly as they are on the scenario's head.
func (s *scenario) headValLines() []string {
	st, _, err := s.k.A.NextState()
	if err != nil {
		panic(err)
	}
	var out []string
	for _, v := range st.GetValidatorsForUpdate() {
		out = append(out, valLine(v))
	}
	return out
}
