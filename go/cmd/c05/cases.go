package main

// Case text format (also the replay-file format; one op per line):
//
//	U <parent> <hdrNum>                       unit case header: processEvidences on a crafted state (scenario "std")
//	T <addrhex> <amount>                      takePenalty case header
//	VAL addr status expelled expelExpired token stake selfToken selfStake risk n (delegator stake token)*n
//	                                          crafted record of a scenario validator (validators not listed are removed)
//	REC validator delegator finished final    crafted withdraw record (queue = the listed records, in order)
//	E <type> S round idx signer votetype n (hashhex sigspec)*n      structured evidence
//	E <type> R <hex>                          raw evidence blob
//	    sigspec = S:<blsKey>:<msghex>:<kind>  real BLS signature of msg under scenario key (kind = vote kind the
//	                                          holder signed it as: 2 prevote 3 precommit 4 next-index 5 certificate)
//	            | G:<hex>                     literal bytes
//
// The executor crafts the state on top of the scenario's head state through exported StateDB API, dumps it, sends the
// dump and the symbolic view of the (re-decoded) evidence blobs to the Lean driver, runs the real code, and compares.

import (
	"encoding/hex"
	"fmt"
	"math/big"
	"sort"
	"strconv"
	"strings"

	"github.com/youchainhq/go-youchain/common"
	"github.com/youchainhq/go-youchain/core/state"
	"github.com/youchainhq/go-youchain/core/types"
	"github.com/youchainhq/go-youchain/params"
	"github.com/youchainhq/go-youchain/rlp"
	"github.com/youchainhq/go-youchain/staking"

	"verifharness/internal/vh"
)

func bigOf(s string) *big.Int {
	b, ok := new(big.Int).SetString(s, 10)
	if !ok {
		return new(big.Int)
	}
	return b
}
func addrOf(s string) common.Address { return common.HexToAddress(s) }
func u64(s string) uint64            { n, _ := strconv.ParseUint(s, 10, 64); return n }

// ---- evidence construction --------------------------------------------------------------------------

type sigInfo struct { // what the harness knows about one signature of an evidence
	key  int // scenario BLS key, -1 = literal bytes
	msg  []byte
	kind int
}

type evInfo struct {
	ev    staking.Evidence
	sigs  []sigInfo // for structured evidences
	model string    // EV line for the driver
	ds    *staking.EvidenceDoubleSignV5
}

func sigBytes(spec string) ([]byte, sigInfo, error) {
	p := strings.Split(spec, ":")
	switch {
	case len(p) >= 3 && p[0] == "S":
		k, err := strconv.Atoi(p[1])
		if err != nil || k < 0 || k >= nBlsKeys {
			return nil, sigInfo{}, fmt.Errorf("bad key in %q", spec)
		}
		msg, err := hex.DecodeString(p[2])
		if err != nil {
			return nil, sigInfo{}, err
		}
		kind := 0
		if len(p) > 3 {
			kind, _ = strconv.Atoi(p[3])
		}
		return blsSign(k, msg), sigInfo{k, msg, kind}, nil
	case len(p) == 2 && p[0] == "G":
		b, err := hex.DecodeString(p[1])
		return b, sigInfo{key: -1}, err
	}
	return nil, sigInfo{}, fmt.Errorf("bad sigspec %q", spec)
}

// buildEvidence turns an E line into the real staking.Evidence and the model's EV line (derived from re-decoding
// the real blob with the real decoder, signatures mapped back to their symbolic form).
func buildEvidence(f []string) (*evInfo, error) {
	if len(f) < 4 {
		return nil, fmt.Errorf("short E line")
	}
	typ := f[1]
	if typ == "-" {
		typ = ""
	}
	out := &evInfo{}
	switch f[2] {
	case "S":
		if len(f) < 8 {
			return nil, fmt.Errorf("short E S line")
		}
		n, _ := strconv.Atoi(f[7])
		if len(f) != 8+2*n {
			return nil, fmt.Errorf("E S line: pair count mismatch")
		}
		d := staking.EvidenceDoubleSignV5{Round: u64(f[3]), RoundIndex: uint32(u64(f[4])), SignerIdx: uint32(u64(f[5])), VoteType: uint8(u64(f[6]))}
		for i := 0; i < n; i++ {
			h, err := hex.DecodeString(f[8+2*i])
			if err != nil {
				return nil, err
			}
			sb, si, err := sigBytes(f[9+2*i])
			if err != nil {
				return nil, err
			}
			d.Signs = append(d.Signs, &staking.SignInfo{Hash: common.BytesToHash(h), Sign: sb})
			out.sigs = append(out.sigs, si)
		}
		body, err := rlp.EncodeToBytes(d)
		if err != nil {
			return nil, err
		}
		out.ev = staking.Evidence{Type: typ, Data: body}
	case "R":
		b, err := hex.DecodeString(strings.TrimPrefix(f[3], "-"))
		if err != nil {
			return nil, err
		}
		out.ev = staking.Evidence{Type: typ, Data: b}
	default:
		return nil, fmt.Errorf("bad E line")
	}
	out.model, out.ds = modelEV(out.ev)
	if f[2] == "R" && out.ds != nil {
		// a raw blob that decodes: what the harness knows about its signatures comes from the signatures it made
		// itself; the vote kind the holder signed them as is taken to be the kind the evidence claims
		kind := int(out.ds.VoteType)
		if kind < 2 || kind > 5 {
			kind = 2
		}
		for _, sg := range out.ds.Signs {
			si := sigInfo{key: -1}
			if sg != nil {
				if b, ok := sigBack[hex.EncodeToString(sg.Sign)]; ok {
					p := strings.Split(b, ":")
					if len(p) == 3 {
						k, _ := strconv.Atoi(p[1])
						m, _ := hex.DecodeString(p[2])
						si = sigInfo{k, m, kind}
					}
				}
			}
			out.sigs = append(out.sigs, si)
		}
	}
	return out, nil
}

func modelEV(ev staking.Evidence) (string, *staking.EvidenceDoubleSignV5) {
	typeOK := 0
	if ev.Type == staking.EvidenceTypeDoubleSignV5 {
		typeOK = 1
	}
	var d staking.EvidenceDoubleSignV5
	if err := rlp.DecodeBytes(ev.Data, &d); err != nil {
		return fmt.Sprintf("EV %d 0 0 0 0 0 0", typeOK), nil
	}
	var sb strings.Builder
	fmt.Fprintf(&sb, "EV %d 1 %d %d %d %d %d", typeOK, d.Round, d.RoundIndex, d.SignerIdx, d.VoteType, len(d.Signs))
	for _, s := range d.Signs {
		if s == nil {
			// a nil element would make the real loop dereference nil; the model has no such value: flag it
			return fmt.Sprintf("EV %d 0 0 0 0 0 0 NILPAIR", typeOK), nil
		}
		sym := "G"
		if b, ok := sigBack[hex.EncodeToString(s.Sign)]; ok {
			sym = b
		}
		fmt.Fprintf(&sb, " %x %s", s.Hash.Bytes(), sym)
	}
	return sb.String(), &d
}

// ---- state crafting ---------------------------------------------------------------------------------

type ucase struct {
	cfg     []uint64 // optional override: PenaltyFractionForDoubleSign, ExpelledRoundForDoubleSign, MaxEvidenceExpiredIn
	kind    string   // U or T
	parent  uint64
	hdrNum  uint64
	tpAddr  common.Address
	tpAmt   *big.Int
	vals    [][]string
	recs    [][]string
	evs     []*evInfo
	evLines []string
}

func parseCase(lines []string) (*ucase, error) {
	c := &ucase{}
	for _, l := range lines {
		f := strings.Fields(l)
		if len(f) == 0 {
			continue
		}
		switch f[0] {
		case "U":
			if len(f) != 3 {
				return nil, fmt.Errorf("bad U line")
			}
			c.kind, c.parent, c.hdrNum = "U", u64(f[1]), u64(f[2])
		case "T":
			if len(f) != 3 {
				return nil, fmt.Errorf("bad T line")
			}
			c.kind, c.tpAddr, c.tpAmt = "T", addrOf(f[1]), bigOf(f[2])
		case "CFG":
			if len(f) != 4 {
				return nil, fmt.Errorf("bad CFG line")
			}
			c.cfg = []uint64{u64(f[1]), u64(f[2]), u64(f[3])}
		case "VAL":
			if len(f) < 11 {
				return nil, fmt.Errorf("bad VAL line")
			}
			n, _ := strconv.Atoi(f[10])
			if len(f) != 11+3*n {
				return nil, fmt.Errorf("bad VAL line (delegations)")
			}
			c.vals = append(c.vals, f)
		case "REC":
			if len(f) != 5 {
				return nil, fmt.Errorf("bad REC line")
			}
			c.recs = append(c.recs, f)
		case "E":
			e, err := buildEvidence(f)
			if err != nil {
				return nil, err
			}
			c.evs = append(c.evs, e)
			c.evLines = append(c.evLines, l)
		default:
			return nil, fmt.Errorf("unknown case line %q", l)
		}
	}
	if c.kind == "" {
		return nil, fmt.Errorf("case without U/T header")
	}
	return c, nil
}

// craft applies the VAL/REC lines to a fresh state on top of the scenario's head.
func (s *scenario) craft(c *ucase) (*state.StateDB, error) {
	st, _, err := s.k.A.NextState()
	if err != nil {
		return nil, err
	}
	listed := map[common.Address][]string{}
	for _, f := range c.vals {
		listed[addrOf(f[1])] = f
	}
	for _, old := range st.GetValidatorsForUpdate() {
		f, ok := listed[old.MainAddress()]
		if !ok {
			st.RemoveValidator(old.MainAddress())
			continue
		}
		nv := old.PartialCopy()
		nv.Status = uint8(u64(f[2]))
		nv.Expelled = f[3] != "0"
		nv.ExpelExpired = u64(f[4])
		nv.Token, nv.Stake, nv.SelfToken, nv.SelfStake = bigOf(f[5]), bigOf(f[6]), bigOf(f[7]), bigOf(f[8])
		nv.RiskObligation = uint16(u64(f[9]))
		n, _ := strconv.Atoi(f[10])
		ds := make(state.DelegationFroms, 0, n)
		for i := 0; i < n; i++ {
			ds = append(ds, &state.DelegationFrom{Delegator: addrOf(f[11+3*i]), Stake: bigOf(f[12+3*i]), Token: bigOf(f[13+3*i])})
		}
		nv.Delegations = ds
		st.UpdateValidator(nv, old)
	}
	q := st.GetWithdrawQueue()
	q.Records = q.Records[:0]
	for i, f := range c.recs {
		st.AddWithdrawRecord(&state.WithdrawRecord{Operator: addrOf(f[1]), Delegator: addrOf(f[2]), Validator: addrOf(f[1]), Recipient: addrOf(f[1]), Nonce: uint64(i),
			CreationHeight: 1, CompletionHeight: 1000, InitialBalance: bigOf(f[4]), FinalBalance: bigOf(f[4]), Finished: uint8(u64(f[3]))})
	}
	return st, nil
}

// ---- running one unit case on the real code and on the model ------------------------------------------

type uresult struct {
	goOut, leanOut string // canonical outputs compared
	goRpl, leanRpl string
	letters        string
	before         *snap
	after          *snap
	affected       []common.Address
	confirmed      []int
	crashed        bool
	panicMsg       string
	modelLines     []string
}

type vsnap struct {
	addr                           common.Address
	status                         uint8
	expelled                       bool
	token, stake, selfTok, selfStk *big.Int
	delegs                         map[common.Address]*big.Int
	delegStakeSum                  *big.Int
	wf                             bool
	canon                          string
}
type snap struct {
	vals   map[common.Address]*vsnap
	finals []*big.Int
	recVal []common.Address
	pto    *big.Int
}

func takeSnap(st *state.StateDB, s *scenario) *snap {
	sn := &snap{vals: map[common.Address]*vsnap{}, pto: new(big.Int).Set(st.GetBalance(s.yp.PenaltyTo))}
	for _, v := range st.GetValidatorsForUpdate() {
		if st.GetValidatorByMainAddr(v.MainAddress()) == nil {
			continue
		}
		vs := &vsnap{addr: v.MainAddress(), status: v.Status, expelled: v.Expelled, token: new(big.Int).Set(v.Token), stake: new(big.Int).Set(v.Stake),
			selfTok: new(big.Int).Set(v.SelfToken), selfStk: new(big.Int).Set(v.SelfStake), delegs: map[common.Address]*big.Int{}, delegStakeSum: new(big.Int), canon: valCanon(v)}
		wf := v.Token.Sign() >= 0 && v.SelfToken.Sign() >= 0 && v.SelfStake.Sign() >= 0 && v.Stake.Sign() > 0
		tokSum := new(big.Int).Set(v.SelfToken)
		for _, d := range v.Delegations {
			if _, dup := vs.delegs[d.Delegator]; dup || d.Token.Sign() < 0 || d.Stake.Sign() < 0 {
				wf = false
			}
			vs.delegs[d.Delegator] = new(big.Int).Set(d.Token)
			vs.delegStakeSum.Add(vs.delegStakeSum, d.Stake)
			tokSum.Add(tokSum, d.Token)
		}
		if new(big.Int).Add(v.SelfStake, vs.delegStakeSum).Cmp(v.Stake) != 0 || tokSum.Cmp(v.Token) != 0 {
			wf = false
		}
		vs.wf = wf
		sn.vals[vs.addr] = vs
	}
	for _, r := range st.GetWithdrawQueue().Records {
		sn.finals = append(sn.finals, new(big.Int).Set(r.FinalBalance))
		sn.recVal = append(sn.recVal, r.Validator)
	}
	return sn
}

// matchIdx maps a returned evidence list (a subsequence of the input) to input indices.
func matchIdx(in []*evInfo, out []staking.Evidence) []int {
	var idx []int
	j := 0
	for _, o := range out {
		for j < len(in) && !(in[j].ev.Type == o.Type && string(in[j].ev.Data) == string(o.Data)) {
			j++
		}
		if j == len(in) {
			idx = append(idx, -1)
			continue
		}
		idx = append(idx, j)
		j++
	}
	return idx
}

func ints(l []int) string {
	var s []string
	for _, x := range l {
		s = append(s, strconv.Itoa(x))
	}
	return strings.Join(s, ",")
}

// paramsFor returns the parameter table of a case (a copy with the case's overrides).
func (s *scenario) paramsFor(c *ucase) *params.YouParams {
	if c == nil || c.cfg == nil {
		return s.yp
	}
	yp := *s.yp
	yp.PenaltyFractionForDoubleSign, yp.ExpelledRoundForDoubleSign, yp.MaxEvidenceExpiredIn = c.cfg[0], c.cfg[1], c.cfg[2]
	return &yp
}

func (s *scenario) runUnit(drv *vh.Driver, c *ucase) (*uresult, error) {
	r := &uresult{}
	yp := s.paramsFor(c)
	st, err := s.craft(c)
	if err != nil {
		return nil, err
	}
	// model input = dump of the real crafted state + symbolic evidences
	lines := []string{"RESET", s.cfgLineFor(yp)}
	lines = append(lines, s.setLines...)
	lines = append(lines, stateLines(st, yp)...)
	for _, e := range c.evs {
		lines = append(lines, e.model)
	}
	r.modelLines = lines
	for _, l := range lines {
		resp, err := drv.Ask(l)
		if err != nil {
			return nil, err
		}
		if resp != "ok" {
			return nil, fmt.Errorf("driver refused %q: %s", l, resp)
		}
	}
	if c.kind == "T" {
		lo, err := drv.Ask(fmt.Sprintf("TP %x %s", c.tpAddr.Bytes(), c.tpAmt))
		if err != nil {
			return nil, err
		}
		r.leanOut = lo
		r.before = takeSnap(st, s)
		func() {
			defer func() {
				if p := recover(); p != nil {
					r.goOut, r.crashed, r.panicMsg = "crash", true, fmt.Sprint(p)
				}
			}()
			val := st.GetValidatorByMainAddr(c.tpAddr)
			if val == nil {
				r.goOut = "no-such-validator"
				return
			}
			nv, total, _, _ := staking.VerifTakePenalty(st, val, new(big.Int).Set(c.tpAmt))
			var qs []string
			for _, rec := range st.GetWithdrawQueue().Records {
				qs = append(qs, rec.FinalBalance.String())
			}
			r.goOut = fmt.Sprintf("ok %s %s Q [%s]", total, valCanon(nv), strings.Join(qs, ","))
		}()
		return r, nil
	}
	lo, err := drv.Ask(fmt.Sprintf("RUN %d %d", c.parent, c.hdrNum))
	if err != nil {
		return nil, err
	}
	lf := strings.SplitN(lo, " ", 3)
	if len(lf) >= 2 {
		r.letters = lf[1]
	}
	if lf[0] == "crash" {
		r.leanOut = "crash"
	} else if len(lf) == 3 {
		r.leanOut = "ok " + lf[2]
	} else {
		r.leanOut = lo
	}
	r.leanRpl, err = drv.Ask(fmt.Sprintf("RPL %d %d", c.parent, c.hdrNum))
	if err != nil {
		return nil, err
	}

	r.before = takeSnap(st, s)
	var evs []staking.Evidence
	for _, e := range c.evs {
		evs = append(evs, e.ev)
	}
	header := &types.Header{Number: new(big.Int).SetUint64(c.hdrNum)}
	var confirmed []staking.Evidence
	func() {
		defer func() {
			if p := recover(); p != nil {
				r.goOut, r.crashed, r.panicMsg = "crash", true, fmt.Sprint(p)
			}
		}()
		conf, pend, aff, _ := s.k.A.Staking.VerifProcessEvidences(yp, st, header, c.parent, evs)
		confirmed = conf
		r.affected = aff
		r.confirmed = matchIdx(c.evs, conf)
		var as []string
		for _, a := range aff {
			as = append(as, fmt.Sprintf("%x", a.Bytes()))
		}
		r.goOut = fmt.Sprintf("ok C [%s] P [%s] A [%s] %s", ints(r.confirmed), ints(matchIdx(c.evs, pend)), strings.Join(as, ","), stateCanon(st, s.yp))
	}()
	r.after = takeSnap(st, s)
	if r.crashed {
		r.goRpl = "crash"
		return r, nil
	}
	// replay path on a second, identically crafted state: SlashData = rlp(confirmed), decoded as replaySlashing does
	st2, err := s.craft(c)
	if err != nil {
		return nil, err
	}
	func() {
		defer func() {
			if p := recover(); p != nil {
				r.goRpl = "crash"
			}
		}()
		if len(confirmed) > 0 {
			sd, err := rlp.EncodeToBytes(confirmed)
			if err != nil {
				r.goRpl = "encode-error"
				return
			}
			var back []staking.Evidence
			if err := rlp.DecodeBytes(sd, &back); err != nil {
				r.goRpl = "decode-error"
				return
			}
			s.k.A.Staking.VerifProcessEvidences(yp, st2, header, c.parent, back)
		}
		r.goRpl = "ok " + stateCanon(st2, s.yp)
	}()
	return r, nil
}

func sortedAddrs(m map[common.Address]*vsnap) []common.Address {
	var as []common.Address
	for a := range m {
		as = append(as, a)
	}
	sort.Slice(as, func(i, j int) bool { return string(as[i].Bytes()) < string(as[j].Bytes()) })
	return as
}
