package main

import (
	"github.com/youchainhq/go-youchain/params"
	"verifharness/internal/vh"
)

func main() {
	params.InitNetworkId(params.NetworkIdForTestCase)
	vh.Main(vh.Harness{Property: "C20", Run: run, Replay: replay})
}
