package main

// Implementation-level oracle: the statement of C20 evaluated on the real pool's internal views and on what
// its public API reports, after every operation.

import (
	"fmt"

	"github.com/youchainhq/go-youchain/common"
	"github.com/youchainhq/go-youchain/core"
	"github.com/youchainhq/go-youchain/core/types"
)

type finding struct {
	clause  string
	what    string
	account int // for cap clauses: the offending account, -1 = global
}

func hasReorg(kind string) bool {
	return kind == "add" || kind == "reset" || kind == "promote" || kind == "mreset"
}

func (w *world) oracle(v *view, o op) []finding {
	var out []finding
	bad := func(clause, format string, a ...interface{}) {
		out = append(out, finding{clause, fmt.Sprintf(format, a...), -1})
	}
	for _, s := range v.structural {
		bad("structure", "%s", s)
	}
	d := v.d
	// the pool works on the state of the LAST head it was told about
	for a, addr := range w.addrs {
		if hn := w.chain.statedb.GetNonce(addr); d.StateNonces[addr] != hn {
			bad("head-state", "the pool's state has nonce %d for account %d, the current head has %d", d.StateNonces[addr], a, hn)
		}
		if hb := w.chain.statedb.GetBalance(addr); d.StateBalances[addr].Cmp(hb) != 0 {
			bad("head-state", "the pool's state has balance %s for account %d, the current head has %s", d.StateBalances[addr], a, hb)
		}
	}
	if d.MaxGas != w.chain.head.GasLimit() {
		bad("head-state", "the pool's gas limit is %d, the current head's is %d", d.MaxGas, w.chain.head.GasLimit())
	}
	// each pooled transaction is pending or queued but not both; `all` is their union
	where := map[uint64]string{}
	nP, nQ := 0, 0
	for a, ids := range v.pending {
		for _, id := range ids {
			if where[id] != "" {
				bad("disjoint", "transaction %d appears twice (pending of %d and %s)", id, a, where[id])
			}
			where[id] = fmt.Sprintf("pending[%d]", a)
			nP++
		}
	}
	for a, ids := range v.queue {
		for _, id := range ids {
			if where[id] != "" {
				bad("disjoint", "transaction %d is queued for %d and also in %s", id, a, where[id])
			}
			where[id] = fmt.Sprintf("queue[%d]", a)
			nQ++
		}
	}
	for id := range where {
		if !v.all[id] {
			bad("all-union", "transaction %d is in %s but not in the lookup", id, where[id])
		}
	}
	for id := range v.all {
		if where[id] == "" {
			bad("all-union", "transaction %d is in the lookup but neither pending nor queued", id)
		}
	}
	if len(d.All) != nP+nQ {
		bad("all-union", "lookup holds %d transactions, pending %d + queued %d", len(d.All), nP, nQ)
	}
	// priced list covers the lookup; len - stales = |all|
	inPriced := map[common.Hash]bool{}
	for _, h := range d.Priced {
		inPriced[h] = true
	}
	for _, h := range d.All {
		if !inPriced[h] {
			bad("priced", "transaction %d is in the lookup but not in the priced heap", w.ids[h])
		}
	}
	if len(d.Priced)-d.Stales != len(d.All) {
		bad("priced", "heap items %d - stales %d != lookup %d", len(d.Priced), d.Stales, len(d.All))
	}
	// per account
	totalP, totalQ := 0, 0
	for a, addr := range w.addrs {
		sn := d.StateNonces[addr]
		bal := d.StateBalances[addr]
		pend, que := v.pending[a], v.queue[a]
		totalP += len(pend)
		totalQ += len(que)
		if l, ok := d.Pending[addr]; ok && len(l.Txs) == 0 {
			bad("structure", "pending[%d] is an empty list", a)
		}
		if l, ok := d.Queue[addr]; ok && len(l.Txs) == 0 {
			bad("structure", "queue[%d] is an empty list", a)
		}
		for i, id := range pend {
			t := w.desc[id]
			if int(t.sender) != a {
				bad("sender", "pending[%d] holds transaction %d of account %d", a, id, t.sender)
			}
			if t.nonce != sn+uint64(i) {
				bad("gap-free", "pending[%d] position %d has nonce %d, state nonce %d", a, i, t.nonce, sn)
			}
			if t.cost().Cmp(bal) > 0 {
				bad("affordable", "pending transaction %d of %d costs %s > balance %s", id, a, t.cost(), bal)
			}
			if t.gas > d.MaxGas {
				bad("affordable", "pending transaction %d of %d wants gas %d > block limit %d", id, a, t.gas, d.MaxGas)
			}
			if l := d.Pending[addr]; l != nil && (t.cost().Cmp(l.CostCap) > 0 || t.gas > l.GasCap) {
				bad("capcache", "pending[%d] cost/gas cap below transaction %d", a, id)
			}
		}
		seen := map[uint64]bool{}
		for _, id := range que {
			t := w.desc[id]
			if int(t.sender) != a {
				bad("sender", "queue[%d] holds transaction %d of account %d", a, id, t.sender)
			}
			if t.nonce < sn+uint64(len(pend)) {
				bad("queued-above", "queued transaction %d of %d has nonce %d, pending ends before %d", id, a, t.nonce, sn+uint64(len(pend)))
			}
			if seen[t.nonce] {
				bad("queued-above", "queue[%d] holds two transactions with nonce %d", a, t.nonce)
			}
			seen[t.nonce] = true
			if l := d.Queue[addr]; l != nil && (t.cost().Cmp(l.CostCap) > 0 || t.gas > l.GasCap) {
				bad("capcache", "queue[%d] cost/gas cap below transaction %d", a, id)
			}
		}
		if d.PendingNonces[addr] != sn+uint64(len(pend)) {
			bad("pending-nonce", "virtual nonce of %d is %d, state nonce %d + %d pending", a, d.PendingNonces[addr], sn, len(pend))
		}
		if got := w.pool.Nonce(addr); got != d.PendingNonces[addr] {
			bad("api", "Nonce(%d) = %d, noncer says %d", a, got, d.PendingNonces[addr])
		}
		_, hasBeat := d.Beats[addr]
		if hasBeat != (len(pend) > 0) {
			bad("beats", "account %d: heartbeat present=%v, pending=%d", a, hasBeat, len(pend))
		}
	}
	// what the pool reports as pending is what it hands to the block builder
	sameLists := func(name string, got map[common.Address]types.Transactions, want map[int][]uint64) {
		cnt := 0
		for addr, txs := range got {
			a, ok := w.aidx[addr]
			if !ok {
				bad("api", "%s reports an unknown account", name)
				continue
			}
			cnt++
			ids := want[a]
			if len(ids) != len(txs) {
				bad("api", "%s reports %d transactions for %d, internal view has %d", name, len(txs), a, len(ids))
				continue
			}
			for i, tx := range txs {
				if w.ids[tx.Hash()] != ids[i] {
					bad("api", "%s for %d differs from the internal view at position %d", name, a, i)
				}
			}
		}
		if cnt != len(want) {
			bad("api", "%s reports %d accounts, internal view has %d", name, cnt, len(want))
		}
	}
	// Every returned slice is then edited in place by the "caller" (scribble) and the view is read again: the
	// pool must be unaffected (aliasing of internal caches shows up here or in the next dump's cache self-check).
	if p, err := w.pool.Pending(); err != nil {
		bad("api", "Pending() failed: %v", err)
	} else {
		sameLists("Pending()", p, v.pending)
		w.scribble(p)
	}
	cp, cq := w.pool.Content()
	sameLists("Content().pending", cp, v.pending)
	sameLists("Content().queued", cq, v.queue)
	w.scribble(cp)
	w.scribble(cq)
	if p, err := w.pool.Pending(); err == nil {
		sameLists("Pending() after the caller edited its earlier snapshots", p, v.pending)
		w.scribble(p)
	}
	cp, cq = w.pool.Content()
	sameLists("Content().pending after the caller edited its earlier snapshots", cp, v.pending)
	sameLists("Content().queued after the caller edited its earlier snapshots", cq, v.queue)
	w.scribble(cp)
	w.scribble(cq)
	if sp, sq := w.pool.Stats(); sp != totalP || sq != totalQ {
		bad("api", "Stats() = (%d, %d), internal view (%d, %d)", sp, sq, totalP, totalQ)
	}
	var hs []common.Hash
	var hid []uint64
	for id, tx := range w.txs {
		if w.desc[id].flags&flNegValue != 0 {
			continue
		}
		hs = append(hs, tx.Hash())
		hid = append(hid, id)
	}
	for i, st := range w.pool.Status(hs) {
		id := hid[i]
		want := core.TxStatusUnknown
		if v.all[id] {
			want = core.TxStatusQueued
			for _, p := range v.pending[int(w.desc[id].sender)] {
				if p == id {
					want = core.TxStatusPending
				}
			}
		}
		if st != want {
			bad("api", "Status(%d) = %d, want %d", id, st, want)
		}
		if (w.pool.Get(hs[i]) != nil) != v.all[id] {
			bad("api", "Get(%d) disagrees with the lookup", id)
		}
	}
	// limits, in the form truncatePending / truncateQueue / promoteExecutables enforce them
	isLocal := map[int]bool{}
	for _, a := range d.Locals {
		isLocal[w.aidx[a]] = true
	}
	if hasReorg(o.kind) {
		if uint64(totalP) > w.cfg.gs {
			for a := range w.addrs {
				if !isLocal[a] && uint64(len(v.pending[a])) > w.cfg.as {
					out = append(out, finding{"cap-pending", fmt.Sprintf("%d pending > GlobalSlots %d while non-local account %d holds %d > AccountSlots %d", totalP, w.cfg.gs, a, len(v.pending[a]), w.cfg.as), a})
				}
			}
		}
	}
	if uint64(totalQ) > w.cfg.gq {
		for a := range w.addrs {
			if !isLocal[a] && len(v.queue[a]) > 0 {
				out = append(out, finding{"cap-queue-global", fmt.Sprintf("%d queued > GlobalQueue %d while non-local account %d still has %d queued", totalQ, w.cfg.gq, a, len(v.queue[a])), -1})
				break
			}
		}
	}
	for a := range w.addrs {
		if !isLocal[a] && uint64(len(v.queue[a])) > w.cfg.aq {
			out = append(out, finding{"cap-queue-account", fmt.Sprintf("non-local account %d has %d queued > AccountQueue %d", a, len(v.queue[a]), w.cfg.aq), a})
		}
	}
	return out
}
