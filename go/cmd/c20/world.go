package main

// The world a C20 case runs in: a fake chain (the pool's `blockChain` interface) over a real StateDB, a real
// core.TxPool, real signed transactions, and the canonical text of the pool's internal views.

import (
	"crypto/ecdsa"
	"errors"
	"fmt"
	"math/big"
	"sort"
	"strconv"
	"strings"
	"time"

	"github.com/youchainhq/go-youchain/common"
	"github.com/youchainhq/go-youchain/core"
	"github.com/youchainhq/go-youchain/core/state"
	"github.com/youchainhq/go-youchain/core/types"
	"github.com/youchainhq/go-youchain/crypto"
	"github.com/youchainhq/go-youchain/event"
	"github.com/youchainhq/go-youchain/params"
	"github.com/youchainhq/go-youchain/youdb"
	"verifharness/internal/vh"
)

// ---- fake chain ------------------------------------------------------------------------------------------

type fakeChain struct {
	statedb  *state.StateDB
	head     *types.Block
	blocks   map[common.Hash]*types.Block
	feed     event.Feed
	proc     core.Processor
	stateErr bool
	// queued head changes (mreset): one state per block, keyed by the header's state root; other roots -> statedb
	states  map[common.Hash]*state.StateDB
	gate    chan struct{} // when set, the next StateAt call signals `entered` and blocks until the gate is closed
	entered chan struct{}
}

func (bc *fakeChain) Processor() core.Processor  { return bc.proc }
func (bc *fakeChain) CurrentBlock() *types.Block { return bc.head }
func (bc *fakeChain) GetBlock(hash common.Hash, number uint64) *types.Block {
	b := bc.blocks[hash]
	if b == nil || b.NumberU64() != number {
		return nil
	}
	return b
}
func (bc *fakeChain) StateAt(root, _, _ common.Hash) (*state.StateDB, error) {
	if bc.stateErr {
		return nil, errors.New("verif: state unavailable")
	}
	if g := bc.gate; g != nil {
		bc.gate = nil
		bc.entered <- struct{}{}
		<-g
	}
	if st, ok := bc.states[root]; ok {
		return st, nil
	}
	return bc.statedb, nil
}
func (bc *fakeChain) SubscribeChainHeadEvent(ch chan<- core.ChainHeadEvent) event.Subscription {
	return bc.feed.Subscribe(ch)
}

func (bc *fakeChain) mkBlock(number uint64, parent common.Hash, gasLimit uint64, salt uint64, txs []*types.Transaction) *types.Block {
	return bc.mkBlockRoot(number, parent, gasLimit, salt, common.Hash{}, txs)
}

func (bc *fakeChain) mkBlockRoot(number uint64, parent common.Hash, gasLimit uint64, salt uint64, root common.Hash, txs []*types.Transaction) *types.Block {
	h := &types.Header{Number: new(big.Int).SetUint64(number), ParentHash: parent, GasLimit: gasLimit, Time: salt, Root: root}
	b := types.NewBlock(h, txs, nil)
	bc.blocks[b.Hash()] = b
	return b
}

// ---- model-level transaction description -----------------------------------------------------------------

type mtx struct {
	id, sender, nonce, price, gas, value, intr, flags uint64
}

func (t mtx) String() string {
	return fmt.Sprintf("%d %d %d %d %d %d %d %d", t.id, t.sender, t.nonce, t.price, t.gas, t.value, t.intr, t.flags)
}

const (
	flOversized = 1
	flNegValue  = 2
	flBadSig    = 4
)

func (t mtx) cost() *big.Int {
	c := new(big.Int).Mul(new(big.Int).SetUint64(t.price), new(big.Int).SetUint64(t.gas))
	return c.Add(c, new(big.Int).SetUint64(t.value))
}

// payload of a transaction whose intrinsic gas is t.intr
func payloadFor(intr, flags uint64) ([]byte, error) {
	if flags&flOversized != 0 {
		return make([]byte, 33*1024), nil
	}
	if intr < params.TxGas || (intr-params.TxGas)%params.TxDataNonZeroGas != 0 {
		return nil, fmt.Errorf("intrinsic gas %d not representable", intr)
	}
	nz := (intr - params.TxGas) / params.TxDataNonZeroGas
	if nz > 1000 {
		return nil, fmt.Errorf("intrinsic gas %d too large", intr)
	}
	d := make([]byte, nz)
	for i := range d {
		d[i] = 1
	}
	return d, nil
}

// ---- world -----------------------------------------------------------------------------------------------

type poolCfg struct {
	as, gs, aq, gq, bump, priceLimit, gasLimit uint64
}

type world struct {
	cfg      poolCfg
	keys     []*ecdsa.PrivateKey
	addrs    []common.Address
	aidx     map[common.Address]int
	chain    *fakeChain
	pool     *core.TxPool
	signer   types.Signer
	txs      map[uint64]*types.Transaction // id -> real transaction
	desc     map[uint64]mtx
	ids      map[common.Hash]uint64
	salt     uint64
	panics   []string
	mrA, mrC [][3]uint64        // full account states of the first and the last head of the latest mreset (for the model)
	scr      *vh.RNG            // drives the caller-side edits of returned views (seeded from the case's init line)
	foreign  *types.Transaction // a valid transaction the pool never saw, written into returned slices
}

var keyCache []*ecdsa.PrivateKey

func accountKey(i int) *ecdsa.PrivateKey {
	for len(keyCache) <= i {
		// fixed keys: deterministic addresses for every seed
		k, err := crypto.ToECDSA(crypto.Keccak256([]byte(fmt.Sprintf("verif-c20-key-%d", len(keyCache)))))
		if err != nil {
			panic(err)
		}
		keyCache = append(keyCache, k)
	}
	return keyCache[i]
}

func newWorld(cfg poolCfg, accts [][2]uint64) (*world, error) {
	w := &world{cfg: cfg, aidx: map[common.Address]int{}, txs: map[uint64]*types.Transaction{}, desc: map[uint64]mtx{}, ids: map[common.Hash]uint64{}}
	statedb, err := state.New(common.Hash{}, common.Hash{}, common.Hash{}, state.NewDatabase(youdb.NewMemDatabase()))
	if err != nil {
		return nil, err
	}
	for i, a := range accts {
		k := accountKey(i)
		addr := crypto.PubkeyToAddress(k.PublicKey)
		w.keys = append(w.keys, k)
		w.addrs = append(w.addrs, addr)
		w.aidx[addr] = i
		statedb.SetNonce(addr, a[0])
		statedb.SetBalance(addr, new(big.Int).SetUint64(a[1]))
	}
	w.chain = &fakeChain{statedb: statedb, blocks: map[common.Hash]*types.Block{}, states: map[common.Hash]*state.StateDB{}, proc: core.NewStateProcessor(nil, nil)}
	w.chain.head = w.chain.mkBlock(100, common.Hash{}, cfg.gasLimit, 0, nil)
	pc := core.TxPoolConfig{Journal: "", Rejournal: time.Hour, PriceLimit: cfg.priceLimit, PriceBump: cfg.bump,
		AccountSlots: cfg.as, GlobalSlots: cfg.gs, AccountQueue: cfg.aq, GlobalQueue: cfg.gq, Lifetime: 3 * time.Hour}
	w.pool = core.NewTxPool(pc, w.chain)
	w.signer = types.MakeSigner(big.NewInt(100))
	return w, nil
}

// scribble treats a view returned by the pool as caller-owned (the API promises "a copy, freely modifiable"):
// every slice is reordered and partly overwritten in place. On a pool that really hands out copies this is a
// no-op for the pool; if a returned slice aliases an internal cache, the next comparison of the views shows it.
func (w *world) scribble(m map[common.Address]types.Transactions) {
	if w.scr == nil {
		return
	}
	if w.foreign == nil {
		var to common.Address
		to[0] = 0xee
		tx, err := types.SignTx(types.NewTransaction(987654321, to, big.NewInt(1), 21000, big.NewInt(1), nil), w.signer, w.keys[0])
		if err != nil {
			return
		}
		w.foreign = tx
	}
	// fixed account order: map iteration must not consume the RNG in a random order
	for _, a := range w.addrs {
		txs, ok := m[a]
		if !ok || len(txs) == 0 {
			continue
		}
		switch w.scr.Intn(4) {
		case 0: // reverse
			for i, j := 0, len(txs)-1; i < j; i, j = i+1, j-1 {
				txs[i], txs[j] = txs[j], txs[i]
			}
		case 1: // reverse and overwrite one element
			for i, j := 0, len(txs)-1; i < j; i, j = i+1, j-1 {
				txs[i], txs[j] = txs[j], txs[i]
			}
			txs[w.scr.Intn(len(txs))] = w.foreign
		case 2: // overwrite everything
			for i := range txs {
				txs[i] = w.foreign
			}
		case 3: // rotate by one and duplicate the head
			first := txs[0]
			copy(txs, txs[1:])
			txs[len(txs)-1] = first
			if len(txs) > 1 {
				txs[0] = txs[1]
			}
		}
	}
}

func (w *world) close() {
	if w.pool != nil {
		w.pool.Stop()
	}
}

func (w *world) initLine() string {
	var sb strings.Builder
	fmt.Fprintf(&sb, "init %d %d %d %d %d %d %d %d", w.cfg.as, w.cfg.gs, w.cfg.aq, w.cfg.gq, w.cfg.bump, w.cfg.priceLimit, w.cfg.gasLimit, len(w.addrs))
	for _, a := range w.addrs {
		fmt.Fprintf(&sb, " %d %d", w.chain.statedb.GetNonce(a), w.chain.statedb.GetBalance(a).Uint64())
	}
	return sb.String()
}

// realTx builds (once) the real signed transaction for a description.
func (w *world) realTx(t mtx) (*types.Transaction, error) {
	if tx, ok := w.txs[t.id]; ok {
		if w.desc[t.id] != t {
			return nil, fmt.Errorf("transaction id %d reused with different content", t.id)
		}
		return tx, nil
	}
	data, err := payloadFor(t.intr, t.flags)
	if err != nil {
		return nil, err
	}
	var to common.Address
	to[0] = 0xc2
	new(big.Int).SetUint64(t.id).FillBytes(to[12:])
	amount := new(big.Int).SetUint64(t.value)
	if t.flags&flNegValue != 0 {
		amount.Neg(amount).Sub(amount, big.NewInt(1))
	}
	tx := types.NewTransaction(t.nonce, to, amount, t.gas, new(big.Int).SetUint64(t.price), data)
	if t.flags&flBadSig == 0 {
		if int(t.sender) >= len(w.keys) {
			return nil, fmt.Errorf("sender %d out of range", t.sender)
		}
		tx, err = types.SignTx(tx, w.signer, w.keys[t.sender])
		if err != nil {
			return nil, err
		}
	}
	if got, e := core.IntrinsicGas(params.TxGas, data); e != nil || got != t.intr {
		return nil, fmt.Errorf("intrinsic gas of id %d: real %d, described %d", t.id, got, t.intr)
	}
	w.txs[t.id] = tx
	w.desc[t.id] = t
	if t.flags&flNegValue != 0 {
		// RLP cannot encode a negative amount: every such transaction hashes the same truncated encoding.
		// They are rejected before they can enter any index, so they get no hash -> id entry.
		return tx, nil
	}
	if other, dup := w.ids[tx.Hash()]; dup && other != t.id {
		return nil, fmt.Errorf("hash collision between ids %d and %d", other, t.id)
	}
	w.ids[tx.Hash()] = t.id
	return tx, nil
}

func errCode(err error) string {
	switch {
	case err == nil:
		return "ok"
	case err == core.ErrOversizedData:
		return "oversized"
	case err == core.ErrNegativeValue:
		return "negvalue"
	case err == core.ErrGasLimit:
		return "gaslimit"
	case err == core.ErrInvalidSender:
		return "sender"
	case err == core.ErrUnderpriced:
		return "underpriced"
	case err == core.ErrNonceTooLow:
		return "noncelow"
	case err == core.ErrInsufficientFunds:
		return "funds"
	case err == core.ErrIntrinsicGas:
		return "intrinsic"
	case err == core.ErrReplaceUnderpriced:
		return "replace"
	case strings.HasPrefix(err.Error(), "know transaction"):
		return "known"
	}
	return "other:" + err.Error()
}

// ---- canonical dump --------------------------------------------------------------------------------------

type view struct {
	text       string
	d          *core.VerifC20Dump
	pending    map[int][]uint64 // account -> ids in nonce order
	queue      map[int][]uint64
	all        map[uint64]bool
	beatOrder  []int // accounts with a heartbeat, oldest first
	noBeat     []int
	structural []string // internal-structure complaints (index/cache/strict flags, unknown hashes)
}

func joinU(ids []uint64, sep string) string {
	s := make([]string, len(ids))
	for i, v := range ids {
		s[i] = strconv.FormatUint(v, 10)
	}
	return strings.Join(s, sep)
}
func joinI(ids []int, sep string) string {
	s := make([]string, len(ids))
	for i, v := range ids {
		s[i] = strconv.Itoa(v)
	}
	return strings.Join(s, sep)
}

func (w *world) idsOf(hs []common.Hash, v *view) []uint64 {
	out := make([]uint64, len(hs))
	for i, h := range hs {
		id, ok := w.ids[h]
		if !ok {
			v.structural = append(v.structural, "pool holds a transaction the harness never submitted: "+h.String())
			id = 999999999
		}
		out[i] = id
	}
	return out
}

func (w *world) dump() *view {
	d := w.pool.VerifC20Dump(w.addrs)
	v := &view{d: d, pending: map[int][]uint64{}, queue: map[int][]uint64{}, all: map[uint64]bool{}}
	lists := func(m map[common.Address]*core.VerifC20List, into map[int][]uint64, strict bool, name string) string {
		var parts []string
		for i, a := range w.addrs {
			l, ok := m[a]
			if !ok {
				continue
			}
			ids := w.idsOf(l.Txs, v)
			into[i] = ids
			parts = append(parts, fmt.Sprintf("%d:%s/%s/%d", i, joinU(ids, "."), l.CostCap.String(), l.GasCap))
			if !l.IndexOK {
				v.structural = append(v.structural, fmt.Sprintf("%s[%d]: nonce heap differs from the items map", name, i))
			}
			if !l.CacheOK {
				v.structural = append(v.structural, fmt.Sprintf("%s[%d]: sorted cache differs from the items map", name, i))
			}
			if l.Strict != strict {
				v.structural = append(v.structural, fmt.Sprintf("%s[%d]: strict flag is %v", name, i, l.Strict))
			}
		}
		for a := range m {
			if _, ok := w.aidx[a]; !ok {
				v.structural = append(v.structural, name+" holds an unknown account "+a.String())
			}
		}
		return strings.Join(parts, ";")
	}
	p := lists(d.Pending, v.pending, true, "pending")
	q := lists(d.Queue, v.queue, false, "queue")
	all := w.idsOf(d.All, v)
	sort.Slice(all, func(i, j int) bool { return all[i] < all[j] })
	inAll := map[common.Hash]bool{}
	for _, h := range d.All {
		inAll[h] = true
	}
	for _, id := range all {
		v.all[id] = true
	}
	var liveH []common.Hash
	for _, h := range d.Priced {
		if inAll[h] {
			liveH = append(liveH, h)
		}
	}
	live := w.idsOf(liveH, v)
	sort.Slice(live, func(i, j int) bool { return live[i] < live[j] })
	var pn, st []string
	for _, a := range w.addrs {
		pn = append(pn, strconv.FormatUint(d.PendingNonces[a], 10))
		st = append(st, fmt.Sprintf("%d:%s", d.StateNonces[a], d.StateBalances[a].String()))
	}
	type bt struct {
		i int
		t time.Time
	}
	var bts []bt
	for i, a := range w.addrs {
		if t, ok := d.Beats[a]; ok {
			bts = append(bts, bt{i, t})
		} else {
			v.noBeat = append(v.noBeat, i)
		}
	}
	sort.SliceStable(bts, func(i, j int) bool { return bts[i].t.Before(bts[j].t) })
	var bs strings.Builder
	for k, b := range bts {
		if k > 0 {
			if bts[k-1].t.Before(b.t) {
				bs.WriteString(".")
			} else {
				bs.WriteString("=") // equal clock readings: order unknown (never seen; would be reported, not guessed)
			}
		}
		bs.WriteString(strconv.Itoa(b.i))
		v.beatOrder = append(v.beatOrder, b.i)
	}
	var loc []int
	for _, a := range d.Locals {
		if i, ok := w.aidx[a]; ok {
			loc = append(loc, i)
		} else {
			v.structural = append(v.structural, "locals holds an unknown account")
		}
	}
	sort.Ints(loc)
	v.text = strings.Join([]string{
		"P=" + p, "Q=" + q, "A=" + joinU(all, "."), "R=" + joinU(live, "."),
		fmt.Sprintf("D=%d", len(d.Priced)-d.Stales),
		"N=" + strings.Join(pn, "."), "S=" + strings.Join(st, "."), "B=" + bs.String(), "L=" + joinI(loc, "."),
		"G=" + d.GasPrice.String(), fmt.Sprintf("M=%d", d.MaxGas)}, "|")
	return v
}

var (
	common0 = common.Hash{}
	common1 = common.Hash{1}
)
