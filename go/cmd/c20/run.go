package main

// C20 harness: correspondence of the Lean pool model with the real core.TxPool after every operation of seeded
// operation sequences + the implementation-level oracle (oracle.go) + shrinking, replay, corpus.

import (
	"fmt"
	"os"
	"strings"

	"verifharness/internal/quiet"
	"verifharness/internal/vh"
)

type caseFail struct {
	kind    string // correspondence | oracle | crash
	clause  string
	what    string
	at      int
	matcher string
}

type caseStats struct {
	ops, promotions, demotions, evictions, tries int
	kinds                                        map[string]int
	results                                      map[string]int
}

type caseInput struct {
	cfg   poolCfg
	accts [][2]uint64
	ops   []op
}

func (ci caseInput) lines() []string {
	out := []string{ci.initLine()}
	for _, o := range ci.ops {
		out = append(out, o.text())
	}
	return out
}
func (ci caseInput) initLine() string {
	var sb strings.Builder
	fmt.Fprintf(&sb, "init %d %d %d %d %d %d %d %d", ci.cfg.as, ci.cfg.gs, ci.cfg.aq, ci.cfg.gq, ci.cfg.bump, ci.cfg.priceLimit, ci.cfg.gasLimit, len(ci.accts))
	for _, a := range ci.accts {
		fmt.Fprintf(&sb, " %d %d", a[0], a[1])
	}
	return sb.String()
}

func parseCase(lines []string) (caseInput, error) {
	var ci caseInput
	if len(lines) == 0 {
		return ci, fmt.Errorf("empty case")
	}
	f := strings.Fields(lines[0])
	if len(f) < 9 || f[0] != "init" {
		return ci, fmt.Errorf("first line must be init")
	}
	r := &numReader{f: f, pos: 1}
	ci.cfg = poolCfg{r.next(), r.next(), r.next(), r.next(), r.next(), r.next(), r.next()}
	n := int(r.next())
	for i := 0; i < n && r.err == nil; i++ {
		ci.accts = append(ci.accts, [2]uint64{r.next(), r.next()})
	}
	if r.err != nil {
		return ci, r.err
	}
	if n < 1 || n > 16 || ci.cfg.as < 1 || ci.cfg.gs < 1 || ci.cfg.aq < 1 || ci.cfg.gq < 1 || ci.cfg.bump < 1 || ci.cfg.priceLimit < 1 {
		return ci, fmt.Errorf("configuration outside the sanitized range")
	}
	for _, l := range lines[1:] {
		o, err := parseOp(l)
		if err != nil {
			return ci, fmt.Errorf("%q: %v", l, err)
		}
		ci.ops = append(ci.ops, o)
	}
	return ci, nil
}

// permutations of a small int slice, identity first
func perms(a []int, limit int) [][]int {
	var out [][]int
	var rec func(k int)
	b := append([]int{}, a...)
	rec = func(k int) {
		if len(out) >= limit {
			return
		}
		if k == len(b) {
			out = append(out, append([]int{}, b...))
			return
		}
		for i := k; i < len(b); i++ {
			b[k], b[i] = b[i], b[k]
			rec(k + 1)
			b[k], b[i] = b[i], b[k]
		}
	}
	rec(0)
	return out
}

func normRes(s string) string { return strings.ReplaceAll(s, "okr", "ok") }

// demotion-related cap excess: the known-finding matcher (see KNOWN_FINDINGS F-C20a)
const matcherQueueCap = "queue-cap-after-demotion"

// runCase executes one sequence on the real pool and (if drv != nil) on the model. gen != nil generates ops on the fly
// (up to nOps); otherwise ci.ops is replayed. Returns the executed input, the first failure (nil if none) and stats.
func runCase(drv *vh.Driver, ci caseInput, gen *genState, nOps int) (caseInput, *caseFail, caseStats, error) {
	ci, f, _, st, err := runCaseK(drv, ci, gen, nOps, true)
	return ci, f, st, err
}

// runCaseK: with stopOnKnown=false a failure that matches a known-finding matcher is remembered (first one, returned
// separately) and the sequence goes on, so open findings do not shorten the explored histories.
func runCaseK(drv *vh.Driver, ci caseInput, gen *genState, nOps int, stopOnKnown bool) (caseInput, *caseFail, *caseFail, caseStats, error) {
	var knownFail *caseFail
	ci, f, st, err := func() (caseInput, *caseFail, caseStats, error) {
		st := caseStats{kinds: map[string]int{}, results: map[string]int{}}
		w, err := newWorld(ci.cfg, ci.accts)
		if err != nil {
			return ci, nil, st, err
		}
		defer w.close()
		w.scr = vh.NewRNG(strHash(ci.initLine()))
		if gen != nil {
			gen.w = w
			ci.ops = nil
		}
		ask := func(l string) (string, error) {
			if drv == nil {
				return "", nil
			}
			return drv.Ask(l)
		}
		pre := w.dump()
		if drv != nil {
			got, e := ask(ci.initLine())
			if e != nil {
				return ci, nil, st, e
			}
			if got != "- "+pre.text {
				return ci, &caseFail{kind: "correspondence", clause: "init", what: "initial views differ: go=" + pre.text + " lean=" + got, at: -1}, st, nil
			}
		}
		globalTainted := false    // a non-reorg op demoted transactions since the last reorg run
		demoted := map[int]bool{} // accounts whose queue received demoted transactions and has not been seen within its cap since
		total := nOps
		if gen == nil {
			total = len(ci.ops)
		}
		for i := 0; i < total; i++ {
			var o op
			if gen != nil {
				o = gen.genOp(pre)
				ci.ops = append(ci.ops, o)
			} else {
				o = ci.ops[i]
			}
			st.ops++
			st.kinds[o.kind]++
			demBefore := st.demotions
			res, e := w.exec(o, pre)
			if e != nil {
				if strings.HasPrefix(e.Error(), "panic:") {
					return ci, &caseFail{kind: "crash", clause: "panic", what: fmt.Sprintf("op %d (%s): %v", i, o.kind, e), at: i}, st, nil
				}
				return ci, nil, st, fmt.Errorf("op %d %q: %v", i, o.text(), e)
			}
			for _, r := range res {
				st.results[r]++
			}
			post := w.dump()
			if os.Getenv("C20_TRACE") != "" {
				fmt.Fprintf(os.Stderr, "op %d %s\n   -> %v %s\n", i, o.text(), res, post.text)
			}
			// movements
			for a, ids := range post.pending {
				was := map[uint64]bool{}
				for _, id := range pre.queue[a] {
					was[id] = true
				}
				for _, id := range ids {
					if was[id] {
						st.promotions++
					}
				}
				_ = a
			}
			// A transaction reinjected by a fork reset at a nonce that was pending goes STRAIGHT into the pending list
			// (replacement in add) and can be demoted by demoteUnexecutables in the same op: it was pending, although
			// no dump ever showed it there. Same root cause as any other demotion (F-C20a), recognised precisely.
			reinjected := map[uint64]bool{}
			if o.kind == "reset" && o.scenario == scFork {
				incl := map[uint64]bool{}
				for _, t := range o.incl {
					incl[t.id] = true
				}
				for _, t := range o.disc {
					if !incl[t.id] {
						reinjected[t.id] = true
					}
				}
			}
			for a, ids := range post.queue {
				was := map[uint64]bool{}
				pendNonce := map[uint64]bool{}
				for _, id := range pre.pending[a] {
					was[id] = true
					pendNonce[w.desc[id].nonce] = true
				}
				for _, id := range ids {
					if reinjected[id] && !pre.all[id] && pendNonce[w.desc[id].nonce] {
						was[id] = true
					}
				}
				for _, id := range ids {
					if was[id] {
						st.demotions++
						demoted[a] = true
					}
				}
			}
			for id := range pre.all {
				if !post.all[id] {
					st.evictions++
				}
			}
			// a fresh transaction promoted within its own add counts as a promotion too
			if o.kind == "add" {
				for _, t := range o.txs {
					for _, id := range post.pending[int(t.sender)%max(1, len(w.addrs))] {
						if id == t.id && !pre.all[id] {
							st.promotions++
						}
					}
				}
			}
			// ---- correspondence ----
			if drv != nil && o.kind == "mreset" {
				// two model resets (cur->A, then the coalesced A->C), the pool observed after both; iteration orders of
				// the two runs are searched: same order first, then (small account sets) every pair
				goLine := "- " + post.text
				base := append([]int{}, post.beatOrder...)
				if _, e := ask("SAVE"); e != nil {
					return ci, nil, st, e
				}
				try := func(o1, o2 []int) (string, error) {
					var got string
					for _, l := range w.mresetProtos(o, o1, o2) {
						g, e := ask(l)
						if e != nil {
							return "", e
						}
						got = g
					}
					st.tries++
					return got, nil
				}
				matched := false
				var first string
				for _, p := range perms(post.noBeat, 720) {
					ord := append(append([]int{}, p...), base...)
					got, e := try(ord, ord)
					if e != nil {
						return ci, nil, st, e
					}
					if first == "" {
						first = got
					}
					if normRes(got) == goLine {
						matched = true
						break
					}
					if _, e := ask("RESTORE"); e != nil {
						return ci, nil, st, e
					}
				}
				if !matched && len(w.addrs) <= 4 {
					all := make([]int, len(w.addrs))
					for k := range all {
						all[k] = k
					}
					ps := perms(all, 24)
				pairs:
					for _, p1 := range ps {
						for _, p2 := range ps {
							got, e := try(p1, p2)
							if e != nil {
								return ci, nil, st, e
							}
							if normRes(got) == goLine {
								matched = true
								break pairs
							}
							if _, e := ask("RESTORE"); e != nil {
								return ci, nil, st, e
							}
						}
					}
				}
				if !matched {
					return ci, &caseFail{kind: "correspondence", clause: "queued-heads", at: i,
						what: fmt.Sprintf("after op %d (%s): three head changes queued behind a running reorg; the pool's views differ from the model reset to the first and then to the LAST head\n go:   %s\n lean: %s", i, o.text(), goLine, first)}, st, nil
				}
			} else if drv != nil {
				goLine := "-"
				if len(res) > 0 {
					goLine = strings.Join(res, ",")
				}
				goLine += " " + post.text
				base := append([]int{}, post.beatOrder...)
				cands := [][]int{append(append([]int{}, post.noBeat...), base...)}
				needTry := (hasReorg(o.kind) || o.kind == "evict") && len(post.noBeat) >= 2
				matched := !needTry
				var first string
				if needTry {
					for pi, p := range perms(post.noBeat, 720) {
						ord := append(append([]int{}, p...), base...)
						got, e := ask("T " + o.proto(ord))
						if e != nil {
							return ci, nil, st, e
						}
						st.tries++
						if pi == 0 {
							first = got
						}
						if normRes(got) == goLine {
							cands[0] = ord
							matched = true
							break
						}
					}
				}
				got, e := ask(o.proto(cands[0]))
				if e != nil {
					return ci, nil, st, e
				}
				if !matched || normRes(got) != goLine {
					if first == "" {
						first = got
					}
					return ci, &caseFail{kind: "correspondence", clause: "views", at: i,
						what: fmt.Sprintf("after op %d (%s) the model's views differ from the pool's\n go:   %s\n lean: %s", i, o.text(), goLine, first)}, st, nil
				}
			}
			// ---- oracle ----
			if hasReorg(o.kind) {
				globalTainted = false
			} else if st.demotions > demBefore {
				globalTainted = true
			}
			fs := w.oracle(post, o)
			var firstReal *finding
			var firstKnown *finding
			for k := range fs {
				f := &fs[k]
				known := false
				switch f.clause {
				case "cap-queue-account":
					known = demoted[f.account]
				case "cap-queue-global":
					// every reorg run ends with truncateQueue; between two runs the queue only grows by demotion
					known = globalTainted && !hasReorg(o.kind)
				}
				if known {
					if firstKnown == nil {
						firstKnown = f
					}
				} else if firstReal == nil {
					firstReal = f
				}
			}
			for a := range w.addrs {
				if uint64(len(post.queue[a])) <= w.cfg.aq {
					delete(demoted, a)
				}
			}
			if firstReal != nil {
				return ci, &caseFail{kind: "oracle", clause: firstReal.clause, at: i, what: fmt.Sprintf("after op %d (%s): %s", i, o.text(), firstReal.what)}, st, nil
			}
			if firstKnown != nil {
				kf := &caseFail{kind: "oracle", clause: firstKnown.clause, at: i, matcher: matcherQueueCap,
					what: fmt.Sprintf("after op %d (%s): %s (transactions demoted from pending are not re-capped)", i, o.text(), firstKnown.what)}
				if stopOnKnown {
					return ci, kf, st, nil
				}
				if knownFail == nil {
					knownFail = kf
				}
			}
			pre = post
		}
		return ci, nil, st, nil
	}()
	return ci, f, knownFail, st, err
}

func strHash(s string) uint64 {
	h := uint64(1469598103934665603)
	for i := 0; i < len(s); i++ {
		h = (h ^ uint64(s[i])) * 1099511628211
	}
	return h
}

func sameFailure(a, b *caseFail) bool {
	return a != nil && b != nil && a.kind == b.kind && a.clause == b.clause && a.matcher == b.matcher
}

func shrinkCase(driver string, ci caseInput, f *caseFail) (caseInput, *caseFail) {
	ci.ops = ci.ops[:min(len(ci.ops), f.at+1)]
	lines := make([]string, len(ci.ops))
	for i, o := range ci.ops {
		lines[i] = o.text()
	}
	best := f
	budget := 400
	fails := func(ls []string) bool {
		if budget <= 0 {
			return false
		}
		budget--
		c2, err := parseCase(append([]string{ci.initLine()}, ls...))
		if err != nil {
			return false
		}
		var drv *vh.Driver
		if driver != "" {
			drv, err = vh.StartDriver(driver)
			if err != nil {
				return false
			}
			defer drv.Close()
		}
		_, f2, _, err := runCase(drv, c2, nil, 0)
		if err != nil || !sameFailure(f, f2) {
			return false
		}
		best = f2
		return true
	}
	small := vh.Shrink(lines, fails)
	c2, err := parseCase(append([]string{ci.initLine()}, small...))
	if err != nil {
		return ci, f
	}
	return c2, best
}

func report(c *vh.Ctx, name string, ci caseInput, f *caseFail) {
	ci2, f2 := shrinkCase(c.Driver, ci, f)
	hdr := []string{f2.kind + ": " + f2.clause}
	for _, l := range strings.Split(f2.what, "\n") {
		hdr = append(hdr, l)
	}
	if f2.matcher != "" {
		hdr = append(hdr, "matcher: "+f2.matcher)
	}
	rp := vh.WriteReplay(c.ReplayDir, "C20", name, c.Seed, hdr, ci2.lines())
	c.Res.Fail(f2.kind, f2.matcher, f2.clause+": "+f2.what, rp)
}

func run(c *vh.Ctx) error {
	quiet.Silence()
	res := c.Res
	res.Rule = "case = one operation sequence on a fresh pool (every op compared); non-trivial when the sequence contains at least one promotion (queue->pending or straight into pending) and at least one demotion (pending->queue) or eviction/drop of a pooled transaction; distinct by canonical op text"
	var drv *vh.Driver
	var err error
	if c.Driver != "" {
		drv, err = vh.StartDriver(c.Driver)
		if err != nil {
			return err
		}
		defer func() { drv.Close() }()
	}
	// ---- corpus first ----
	for _, f := range vh.CorpusFiles("C20") {
		body, comments, e := vh.ReadReplay(f)
		if e != nil {
			continue
		}
		still, what := replay(c, body, comments)
		res.Dist("corpus")
		if still {
			res.Fail("corpus", "", "corpus witness fails again: "+f+": "+what, f)
		}
	}
	// ---- known-finding probes ----
	probes(c)
	// ---- seeded sequences ----
	nSeq := c.N(1500, 14000)
	if c.Search {
		nSeq *= 3
	}
	reported := map[string]bool{}
	// vh.NewRNG(seed) streams of neighbouring seeds are shifted copies of each other; forking once through the
	// output mixer decorrelates them
	root := c.R.Fork().Fork()
	for si := 0; si < nSeq; si++ {
		r := root.Fork()
		cfg, accts := genConfig(r)
		g := &genState{r: r, usedPrice: map[uint64]bool{}, dist: res.Dist}
		nOps := r.Range(20, 120)
		ci, f, kf, st, e := runCaseK(drv, caseInput{cfg: cfg, accts: accts}, g, nOps, false)
		if e != nil {
			return fmt.Errorf("sequence %d: %v", si, e)
		}
		if kf != nil {
			res.Dist("known-" + kf.matcher + "-" + kf.clause)
			key := kf.kind + "/" + kf.clause + "/" + kf.matcher
			if !reported[key] {
				reported[key] = true
				kci := ci
				kci.ops = append([]op{}, ci.ops...)
				report(c, fmt.Sprintf("known-%s-s%d", kf.clause, si), kci, kf)
			}
		}
		res.TracesVsImpl += st.ops
		for k, n := range st.kinds {
			res.DistN("op-"+k, n)
		}
		for k, n := range st.results {
			res.DistN("add-result-"+k, n)
		}
		res.DistN("moves-promotion", st.promotions)
		res.DistN("moves-demotion", st.demotions)
		res.DistN("moves-drop", st.evictions)
		res.DistN("order-tries", st.tries)
		res.Dist(fmt.Sprintf("accounts-%d", len(accts)))
		res.Count(strings.Join(ci.lines(), "\n"), st.promotions > 0 && (st.demotions > 0 || st.evictions > 0))
		if si < 2 {
			ls := ci.lines()
			if len(ls) > 12 {
				ls = ls[:12]
			}
			res.Sample(map[string]interface{}{"sequence_head": ls, "ops": st.ops, "promotions": st.promotions, "demotions": st.demotions, "drops": st.evictions})
		}
		if f != nil {
			key := f.kind + "/" + f.clause + "/" + f.matcher
			if reported[key] {
				continue
			}
			reported[key] = true
			report(c, fmt.Sprintf("%s-%s-s%d", f.kind, f.clause, si), ci, f)
			// the shared driver may be out of step after a failure: restart it
			if drv != nil {
				drv.Close()
				drv, err = vh.StartDriver(c.Driver)
				if err != nil {
					return err
				}
			}
		}
	}
	tickerScenario(c)
	if c.Thorough() {
		raceExploration(c)
	}
	res.Partial = append(res.Partial,
		"goroutine interleavings and data races are explored (thorough tier: go run -race of a concurrent driver), not proved",
		"heap tie-breaking between distinct transactions of equal (price, nonce) and duplicate heap entries of a re-submitted evicted transaction are not sampled (prices are unique per sequence; evicted transactions are not re-submitted)",
		"the eviction tick is driven through a hook copy of the loop body with an explicit clock; the real ticker is exercised by one scenario only")
	return nil
}

func replay(c *vh.Ctx, body, comments []string) (bool, string) {
	quiet.Silence()
	ci, err := parseCase(body)
	if err != nil {
		return false, "unreadable replay: " + err.Error()
	}
	var drv *vh.Driver
	if c.Driver != "" {
		drv, err = vh.StartDriver(c.Driver)
		if err == nil {
			defer drv.Close()
		} else {
			drv = nil
		}
	}
	_, f, _, err := runCase(drv, ci, nil, 0)
	if err != nil {
		return false, "replay could not run: " + err.Error()
	}
	if f == nil {
		return false, "no failure: model and pool agree and the oracle holds on every step"
	}
	// a corpus/replay file of a known finding names its matcher; it "still fails" only if an unlisted failure shows
	for _, cm := range comments {
		if strings.HasPrefix(cm, "expect-matcher: ") && f.matcher == strings.TrimPrefix(cm, "expect-matcher: ") {
			return false, "known finding reproduces: " + f.what
		}
	}
	return true, f.kind + " " + f.clause + ": " + f.what
}
