package main

// Operations of a C20 case: text form (replay files), protocol form (Lean driver), execution on the real pool.

import (
	"fmt"
	"math/big"
	"strconv"
	"strings"
	"time"

	"github.com/youchainhq/go-youchain/common"
	"github.com/youchainhq/go-youchain/core/state"
	"github.com/youchainhq/go-youchain/core/types"
)

// reset scenarios on the fake chain
const (
	scPlain        = 0 // new head is a child of the old head
	scFork         = 1 // old and new branch over a common ancestor: reinjection of discarded \ included
	scDeep         = 2 // number distance > 64: reinjection skipped, state replaced
	scMissingLower = 3 // old head unknown to the chain, new number lower  -> reset returns early
	scMissingUpper = 4 // old head unknown to the chain, new number higher -> reset returns early
	scUnrooted     = 5 // old branch not connected                         -> reset returns early
	scStateErr     = 6 // StateAt fails                                    -> reset returns early
	scNilOld       = 7 // oldHead == nil (as at start-up)
	scCount        = 8
)

func scEarly(sc int) bool {
	return sc == scMissingLower || sc == scMissingUpper || sc == scUnrooted || sc == scStateErr
}

type op struct {
	kind     string // add reset price remove evict promote
	local    bool
	async    bool  // remote add WITHOUT waiting for the promotion run; views are read and edited in that window
	txs      []mtx // add: the batch; remove: one
	scenario int
	gasLimit uint64
	changes  [][3]uint64 // account, nonce, balance
	disc     []mtx
	incl     []mtx
	lo, ln   int
	price    uint64
	// mreset: head changes cur->A, A->B, B->C queued while the run for cur->A is held inside reset
	shape         int // 0: C sibling of B (equal height) 1: C sibling of A (lower) 2: C child of B (higher)
	gls           [3]uint64
	chA, chB, chC [][3]uint64
	oob           bool
	k             int
}

// addMode: 0 remote (sync), 1 local, 2 remote asynchronous with racing reads (the model sees a remote add)
func (o op) addMode() int {
	if o.local {
		return 1
	}
	if o.async {
		return 2
	}
	return 0
}

func b2i(b bool) int {
	if b {
		return 1
	}
	return 0
}

func txsText(ts []mtx) string {
	var sb strings.Builder
	fmt.Fprintf(&sb, "%d", len(ts))
	for _, t := range ts {
		sb.WriteString(" " + t.String())
	}
	return sb.String()
}

// text is the replay-file form (no iteration order: that is observed at run time).
func (o op) text() string {
	switch o.kind {
	case "add":
		return fmt.Sprintf("add %d %s", o.addMode(), txsText(o.txs))
	case "reset":
		var sb strings.Builder
		fmt.Fprintf(&sb, "reset %d %d %d %d %d", o.scenario, o.lo, o.ln, o.gasLimit, len(o.changes))
		for _, c := range o.changes {
			fmt.Fprintf(&sb, " %d %d %d", c[0], c[1], c[2])
		}
		sb.WriteString(" " + txsText(o.disc) + " " + txsText(o.incl))
		return sb.String()
	case "mreset":
		var sb strings.Builder
		fmt.Fprintf(&sb, "mreset %d %d %d %d", o.shape, o.gls[0], o.gls[1], o.gls[2])
		for _, ch := range [][][3]uint64{o.chA, o.chB, o.chC} {
			fmt.Fprintf(&sb, " %d", len(ch))
			for _, c := range ch {
				fmt.Fprintf(&sb, " %d %d %d", c[0], c[1], c[2])
			}
		}
		return sb.String()
	case "price":
		return fmt.Sprintf("price %d", o.price)
	case "remove":
		return fmt.Sprintf("remove %d %s", b2i(o.oob), o.txs[0].String())
	case "evict":
		return fmt.Sprintf("evict %d", o.k)
	case "promote":
		return "promote"
	}
	return "?"
}

func ordText(ord []int) string {
	if len(ord) == 0 {
		return "-"
	}
	return joinI(ord, ",")
}

// proto is the Lean driver line for this op under iteration order ord.
func (o op) proto(ord []int) string {
	switch o.kind {
	case "add":
		return fmt.Sprintf("add %d %s %s", b2i(o.local), ordText(ord), txsText(o.txs))
	case "reset":
		var sb strings.Builder
		kind := 0
		if scEarly(o.scenario) {
			kind = 1
		}
		fmt.Fprintf(&sb, "reset %s %d %d %d", ordText(ord), kind, o.gasLimit, len(o.changes))
		for _, c := range o.changes {
			fmt.Fprintf(&sb, " %d %d %d", c[0], c[1], c[2])
		}
		if o.scenario == scFork {
			sb.WriteString(" " + txsText(o.disc) + " " + txsText(o.incl))
		} else {
			sb.WriteString(" 0 0")
		}
		return sb.String()
	case "price":
		return fmt.Sprintf("price %d", o.price)
	case "remove":
		return fmt.Sprintf("remove %d %s", b2i(o.oob), o.txs[0].String())
	case "evict":
		return fmt.Sprintf("evict %s %d", ordText(ord), o.k)
	case "promote":
		return "promote " + ordText(ord)
	}
	return "?"
}

// mresetProtos: what the unchanged pool does with the three queued head changes = two resets, cur->A and then
// (coalesced) A->C; both states are sent in full. Valid only right after exec of the op (uses w.mrA / w.mrC).
func (w *world) mresetProtos(o op, ord1, ord2 []int) []string {
	line := func(ord []int, gl uint64, st [][3]uint64) string {
		var sb strings.Builder
		fmt.Fprintf(&sb, "reset %s 0 %d %d", ordText(ord), gl, len(st))
		for _, c := range st {
			fmt.Fprintf(&sb, " %d %d %d", c[0], c[1], c[2])
		}
		sb.WriteString(" 0 0")
		return sb.String()
	}
	return []string{line(ord1, o.gls[0], w.mrA), line(ord2, o.gls[2], w.mrC)}
}

type numReader struct {
	f   []string
	pos int
	err error
}

func (r *numReader) next() uint64 {
	if r.pos >= len(r.f) {
		r.err = fmt.Errorf("op line too short")
		return 0
	}
	v, e := strconv.ParseUint(r.f[r.pos], 10, 64)
	if e != nil {
		r.err = e
	}
	r.pos++
	return v
}
func (r *numReader) tx() mtx {
	return mtx{r.next(), r.next(), r.next(), r.next(), r.next(), r.next(), r.next(), r.next()}
}
func (r *numReader) txs() []mtx {
	n := int(r.next())
	if n > 10000 {
		r.err = fmt.Errorf("too many transactions")
		return nil
	}
	var out []mtx
	for i := 0; i < n && r.err == nil; i++ {
		out = append(out, r.tx())
	}
	return out
}

func parseOp(line string) (op, error) {
	f := strings.Fields(line)
	if len(f) == 0 {
		return op{}, fmt.Errorf("empty op")
	}
	r := &numReader{f: f, pos: 1}
	o := op{kind: f[0]}
	switch f[0] {
	case "add":
		switch r.next() {
		case 0:
		case 1:
			o.local = true
		case 2:
			o.async = true
		default:
			r.err = fmt.Errorf("bad add mode")
		}
		o.txs = r.txs()
	case "reset":
		o.scenario = int(r.next())
		o.lo = int(r.next())
		o.ln = int(r.next())
		o.gasLimit = r.next()
		nc := int(r.next())
		for i := 0; i < nc && r.err == nil; i++ {
			o.changes = append(o.changes, [3]uint64{r.next(), r.next(), r.next()})
		}
		o.disc = r.txs()
		o.incl = r.txs()
		if o.scenario < 0 || o.scenario >= scCount || o.lo < 1 || o.ln < 1 || o.lo > 8 || o.ln > 8 {
			return o, fmt.Errorf("bad reset scenario")
		}
	case "mreset":
		o.shape = int(r.next())
		o.gls = [3]uint64{r.next(), r.next(), r.next()}
		for k := 0; k < 3 && r.err == nil; k++ {
			nc := int(r.next())
			var ch [][3]uint64
			for i := 0; i < nc && r.err == nil; i++ {
				ch = append(ch, [3]uint64{r.next(), r.next(), r.next()})
			}
			switch k {
			case 0:
				o.chA = ch
			case 1:
				o.chB = ch
			case 2:
				o.chC = ch
			}
		}
		if o.shape < 0 || o.shape > 2 {
			return o, fmt.Errorf("bad mreset shape")
		}
	case "price":
		o.price = r.next()
	case "remove":
		o.oob = r.next() != 0
		o.txs = []mtx{r.tx()}
	case "evict":
		o.k = int(r.next())
	case "promote":
	default:
		return o, fmt.Errorf("unknown op %q", f[0])
	}
	if r.err == nil && r.pos != len(f) {
		r.err = fmt.Errorf("trailing fields")
	}
	return o, r.err
}

func splitTxs(ts []*types.Transaction, parts int) [][]*types.Transaction {
	out := make([][]*types.Transaction, parts)
	for i := 0; i < parts; i++ {
		out[i] = ts[i*len(ts)/parts : (i+1)*len(ts)/parts]
	}
	return out
}

// exec runs the op on the real pool. pre is the view before the op (needed by evict). Returns per-tx result codes.
func (w *world) exec(o op, pre *view) (res []string, err error) {
	defer func() {
		if r := recover(); r != nil {
			err = fmt.Errorf("panic: %v", r)
		}
	}()
	switch o.kind {
	case "add":
		var txs []*types.Transaction
		for _, t := range o.txs {
			tx, e := w.realTx(t)
			if e != nil {
				return nil, e
			}
			txs = append(txs, tx)
		}
		var errs []error
		switch {
		case o.local:
			errs = w.pool.AddLocals(txs)
		case o.async:
			// the window between add() and its promotion run: exported views are read and edited by the caller
			// straight away (no comparison here: the run may or may not have happened yet), then the pool is
			// brought to quiescence. The second, empty run changes nothing, so the model sees one remote add.
			errs = w.pool.AddRemotes(txs)
			if p, e := w.pool.Pending(); e == nil {
				w.scribble(p)
			}
			cp, cq := w.pool.Content()
			w.scribble(cp)
			w.scribble(cq)
			w.pool.VerifC20PromoteSync()
		default:
			errs = w.pool.AddRemotesSync(txs)
		}
		for _, e := range errs {
			c := errCode(e)
			if c == "ok" {
				// the Go API does not return `replaced`; the model's okr is folded into ok by the comparer
			}
			res = append(res, c)
		}
	case "reset":
		real := func(ts []mtx) ([]*types.Transaction, error) {
			var out []*types.Transaction
			for _, t := range ts {
				tx, e := w.realTx(t)
				if e != nil {
					return nil, e
				}
				out = append(out, tx)
			}
			return out, nil
		}
		bc := w.chain
		cur := bc.head
		w.salt++
		newState := bc.statedb.Copy()
		for _, c := range o.changes {
			if int(c[0]) >= len(w.addrs) {
				return nil, fmt.Errorf("account %d out of range", c[0])
			}
			newState.SetNonce(w.addrs[c[0]], c[1])
			newState.SetBalance(w.addrs[c[0]], new(big.Int).SetUint64(c[2]))
		}
		oldHeader := cur.Header()
		var newBlock *types.Block
		install := true
		switch o.scenario {
		case scPlain, scStateErr, scNilOld:
			newBlock = bc.mkBlock(cur.NumberU64()+1, cur.Hash(), o.gasLimit, w.salt, nil)
			if o.scenario == scStateErr {
				install = false
				bc.stateErr = true
			}
			if o.scenario == scNilOld {
				oldHeader = nil
			}
		case scFork:
			disc, e := real(o.disc)
			if e != nil {
				return nil, e
			}
			incl, e := real(o.incl)
			if e != nil {
				return nil, e
			}
			// discarded is collected tip first: chunk j of o.disc belongs to old block lo-j
			dch := splitTxs(disc, o.lo)
			ich := splitTxs(incl, o.ln)
			parent := cur
			olds := make([]*types.Block, o.lo)
			for i := 0; i < o.lo; i++ { // i = height above the ancestor - 1
				olds[i] = bc.mkBlock(parent.NumberU64()+1, parent.Hash(), cur.GasLimit(), w.salt*16+1, dch[o.lo-1-i])
				parent = olds[i]
			}
			oldHeader = parent.Header()
			parent = cur
			for i := 0; i < o.ln; i++ {
				gl := cur.GasLimit()
				if i == o.ln-1 {
					gl = o.gasLimit
				}
				nb := bc.mkBlock(parent.NumberU64()+1, parent.Hash(), gl, w.salt*16+2, ich[o.ln-1-i])
				parent = nb
			}
			newBlock = parent
		case scDeep:
			newBlock = bc.mkBlock(cur.NumberU64()+70, common0, o.gasLimit, w.salt, nil)
		case scMissingLower:
			install = false
			oldHeader = &types.Header{Number: new(big.Int).SetUint64(cur.NumberU64() + 5), Time: w.salt, GasLimit: 1}
			newBlock = bc.mkBlock(cur.NumberU64()+1, common0, o.gasLimit, w.salt, nil)
		case scMissingUpper:
			install = false
			oldHeader = &types.Header{Number: new(big.Int).SetUint64(cur.NumberU64() + 1), Time: w.salt, GasLimit: 1}
			newBlock = bc.mkBlock(cur.NumberU64()+3, common0, o.gasLimit, w.salt, nil)
		case scUnrooted:
			install = false
			ob := bc.mkBlock(cur.NumberU64()+3, common1, cur.GasLimit(), w.salt, nil)
			oldHeader = ob.Header()
			newBlock = bc.mkBlock(cur.NumberU64()+1, cur.Hash(), o.gasLimit, w.salt, nil)
		default:
			return nil, fmt.Errorf("bad scenario")
		}
		prevState := bc.statedb
		if install {
			bc.statedb = newState
		}
		w.pool.VerifC20ResetSync(oldHeader, newBlock.Header())
		bc.stateErr = false
		if install {
			bc.head = newBlock
		} else {
			bc.statedb = prevState
			delete(bc.blocks, newBlock.Hash())
		}
	case "mreset":
		bc := w.chain
		cur := bc.head
		w.salt++
		mk := func(base *state.StateDB, ch [][3]uint64) (*state.StateDB, error) {
			st := base.Copy()
			for _, c := range ch {
				if int(c[0]) >= len(w.addrs) {
					return nil, fmt.Errorf("account %d out of range", c[0])
				}
				st.SetNonce(w.addrs[c[0]], c[1])
				st.SetBalance(w.addrs[c[0]], new(big.Int).SetUint64(c[2]))
			}
			return st, nil
		}
		stA, e := mk(bc.statedb, o.chA)
		if e != nil {
			return nil, e
		}
		stB, e := mk(stA, o.chB)
		if e != nil {
			return nil, e
		}
		root := func(k byte) common.Hash {
			var h common.Hash
			h[0] = 0xa0 + k
			new(big.Int).SetUint64(w.salt).FillBytes(h[24:])
			return h
		}
		blkA := bc.mkBlockRoot(cur.NumberU64()+1, cur.Hash(), o.gls[0], w.salt, root(0), nil)
		blkB := bc.mkBlockRoot(blkA.NumberU64()+1, blkA.Hash(), o.gls[1], w.salt, root(1), nil)
		baseC, parentC := stA, blkA
		switch o.shape {
		case 1:
			baseC, parentC = bc.statedb, cur
		case 2:
			baseC, parentC = stB, blkB
		}
		stC, e := mk(baseC, o.chC)
		if e != nil {
			return nil, e
		}
		blkC := bc.mkBlockRoot(parentC.NumberU64()+1, parentC.Hash(), o.gls[2], w.salt+1<<40, root(2), nil)
		bc.states[root(0)], bc.states[root(1)], bc.states[root(2)] = stA, stB, stC
		full := func(st *state.StateDB) [][3]uint64 {
			var out [][3]uint64
			for i, a := range w.addrs {
				out = append(out, [3]uint64{uint64(i), st.GetNonce(a), st.GetBalance(a).Uint64()})
			}
			return out
		}
		w.mrA, w.mrC = full(stA), full(stC)
		// hold the run for cur->A inside reset (it owns the pool lock and waits in StateAt), queue the two later head
		// changes behind it, release: scheduleReorgLoop has to coalesce them into ONE run to the LAST head
		gate := make(chan struct{})
		bc.entered = make(chan struct{}, 1)
		bc.gate = gate
		d1 := w.pool.VerifC20RequestReset(cur.Header(), blkA.Header())
		select {
		case <-bc.entered:
		case <-time.After(20 * time.Second):
			close(gate)
			return nil, fmt.Errorf("mreset: the first reorg run never reached StateAt")
		}
		d2 := w.pool.VerifC20RequestReset(blkA.Header(), blkB.Header())
		d3 := w.pool.VerifC20RequestReset(blkB.Header(), blkC.Header())
		close(gate)
		for _, d := range []chan struct{}{d1, d2, d3} {
			select {
			case <-d:
			case <-time.After(20 * time.Second):
				return nil, fmt.Errorf("mreset: a queued reset never completed")
			}
		}
		bc.head = blkC
		bc.statedb = stC
	case "price":
		w.pool.SetGasPrice(new(big.Int).SetUint64(o.price))
	case "remove":
		tx, e := w.realTx(o.txs[0])
		if e != nil {
			return nil, e
		}
		w.pool.VerifC20RemoveTx(tx.Hash(), o.oob)
	case "evict":
		now := time.Now()
		k := o.k
		if k > len(pre.beatOrder) {
			k = len(pre.beatOrder)
		}
		life := w.pool.VerifC20Config().Lifetime
		if len(pre.beatOrder) > 0 {
			if k == 0 {
				now = pre.d.Beats[w.addrs[pre.beatOrder[0]]].Add(life)
			} else {
				now = pre.d.Beats[w.addrs[pre.beatOrder[k-1]]].Add(life + 1)
			}
		}
		w.pool.VerifC20Evict(now)
	case "promote":
		w.pool.VerifC20PromoteSync()
	default:
		return nil, fmt.Errorf("unknown op kind %q", o.kind)
	}
	return res, nil
}
