package main

// Known-finding probe, the real-ticker eviction scenario, and the thorough-tier race exploration.

import (
	"context"
	"fmt"
	"os"
	"os/exec"
	"path/filepath"
	"strings"
	"time"

	"github.com/youchainhq/go-youchain/core"
	"verifharness/internal/vh"
)

// F-C20a: a pending run demoted by removing its first transaction is not re-capped.
var probeF20a = []string{
	"init 8 16 1 2 10 1000 100000 1 0 1000000000000",
	"add 0 4 1 0 0 5001 21000 1 21000 0 2 0 1 5002 21000 1 21000 0 3 0 2 5003 21000 1 21000 0 4 0 3 5004 21000 1 21000 0",
	"remove 1 1 0 0 5001 21000 1 21000 0",
}

func probes(c *vh.Ctx) {
	ci, err := parseCase(probeF20a)
	if err != nil {
		c.Res.Fail("crash", "", "probe F-C20a unreadable: "+err.Error(), "")
		return
	}
	_, f, _, err := runCase(nil, ci, nil, 0)
	if err != nil {
		c.Res.Fail("crash", "", "probe F-C20a could not run: "+err.Error(), "")
		return
	}
	p := vh.Probe{ID: "F-C20a", Reproduced: f != nil && f.matcher == matcherQueueCap}
	if p.Reproduced {
		p.What = f.what
	} else if f != nil {
		p.What = "probe failed differently: " + f.what
		rp := vh.WriteReplay(c.ReplayDir, "C20", "probe-f20a-other", c.Seed, []string{f.kind + ": " + f.clause, f.what}, probeF20a)
		c.Res.Fail(f.kind, "", "probe F-C20a: "+f.what, rp)
	} else {
		p.What = "queue limits held after a demotion: the finding no longer reproduces"
	}
	c.Res.Probes = append(c.Res.Probes, p)
}

// tickerScenario exercises the REAL eviction ticker of loop(): with a short interval every queued transaction of a
// non-local account without heartbeat is evicted at the next tick, local ones stay, pending ones stay, and the
// oracle holds afterwards. Outcome is polled (bounded), never slept on blindly.
func tickerScenario(c *vh.Ctx) {
	old := core.VerifC20SetEvictionInterval(15 * time.Millisecond)
	defer core.VerifC20SetEvictionInterval(old)
	lines := []string{
		"init 4 16 4 16 10 1000 100000 3 0 1000000000000 0 1000000000000 0 1000000000000",
		"add 0 2 1 0 0 5001 21000 1 21000 0 2 0 2 5002 21000 1 21000 0", // account 0: pending 0, queued 2
		"add 0 1 3 1 3 5003 21000 1 21000 0",                            // account 1: queued only (no heartbeat)
		"add 1 1 4 2 5 5004 21000 1 21000 0",                            // account 2: local, queued only
	}
	ci, err := parseCase(lines)
	if err != nil {
		c.Res.Fail("crash", "", "ticker scenario unreadable", "")
		return
	}
	w, err := newWorld(ci.cfg, ci.accts)
	if err != nil {
		c.Res.Fail("crash", "", "ticker scenario: "+err.Error(), "")
		return
	}
	defer w.close()
	pre := w.dump()
	for _, o := range ci.ops {
		if _, e := w.exec(o, pre); e != nil {
			c.Res.Fail("crash", "", "ticker scenario: "+e.Error(), "")
			return
		}
		pre = w.dump()
	}
	deadline := time.Now().Add(20 * time.Second)
	var v *view
	for {
		v = w.dump()
		if len(v.queue[1]) == 0 || time.Now().After(deadline) {
			break
		}
		time.Sleep(5 * time.Millisecond)
	}
	c.Res.Dist("real-ticker-scenario")
	var what string
	switch {
	case len(v.queue[1]) != 0:
		what = "queued transaction of a remote account without heartbeat survived the eviction ticks"
	case len(v.queue[2]) != 1:
		what = "queued transaction of a local account was evicted"
	case len(v.pending[0]) != 1 || len(v.queue[0]) != 1:
		what = fmt.Sprintf("account with a fresh heartbeat was touched by eviction: pending %v queued %v", v.pending[0], v.queue[0])
	}
	if what == "" {
		for _, f := range w.oracle(v, op{kind: "evict"}) {
			what = f.clause + ": " + f.what
			break
		}
	}
	if what != "" {
		rp := vh.WriteReplay(c.ReplayDir, "C20", "real-ticker", c.Seed, []string{"oracle: real eviction ticker scenario", what, "views: " + v.text}, lines)
		c.Res.Fail("oracle", "", "real-ticker eviction: "+what, rp)
	}
}

// raceExploration (thorough tier): `go run -race` of go/cmd/c20/race — concurrent submitters, resets, re-pricing and
// readers on one pool. Exploration, not proof.
func raceExploration(c *vh.Ctx) {
	root := os.Getenv("VERIF_ROOT")
	if root == "" {
		root = "/verif"
	}
	goDir := filepath.Join(root, "go")
	args := []string{"run", "-race", "-tags", "verif"}
	if repo := vh.RepoRoot(); repo != "/repo" {
		// scratch-worktree runs: same module file rewriting as ./check does
		alt := filepath.Join(os.TempDir(), fmt.Sprintf("c20-race-%d.mod", os.Getpid()))
		b, err := os.ReadFile(filepath.Join(goDir, "go.mod"))
		if err == nil {
			os.WriteFile(alt, []byte(strings.ReplaceAll(string(b), "=> /repo", "=> "+repo)), 0o644)
			sum, _ := os.ReadFile(filepath.Join(repo, "go.sum"))
			os.WriteFile(strings.TrimSuffix(alt, ".mod")+".sum", sum, 0o644)
			defer os.Remove(alt)
			defer os.Remove(strings.TrimSuffix(alt, ".mod") + ".sum")
			args = append(args, "-modfile="+alt)
		}
	}
	args = append(args, "./cmd/c20/race", "-seed", fmt.Sprint(c.Seed), "-seconds", "45")
	ctx, cancel := context.WithTimeout(context.Background(), 6*time.Minute)
	defer cancel()
	cmd := exec.CommandContext(ctx, "go", args...)
	cmd.Dir = goDir
	cmd.Env = append(os.Environ(), "GOFLAGS=-mod=mod", "GOPROXY=off", "GOSUMDB=off", "GOTOOLCHAIN=local", "CGO_ENABLED=1")
	out, err := cmd.CombinedOutput()
	text := string(out)
	c.Res.Dist("race-exploration-runs")
	c.Res.Extra["race_exploration"] = lastLines(text, 6)
	if strings.Contains(text, "WARNING: DATA RACE") || strings.Contains(text, "INVARIANT:") || (err != nil && !strings.Contains(text, "RACE-OK")) {
		rp := vh.WriteReplay(c.ReplayDir, "C20", "race", c.Seed,
			[]string{"oracle: concurrent exploration under the race detector (go run -race ./cmd/c20/race)", "re-run: cd /verif/go && go run -race -tags verif ./cmd/c20/race -seed " + fmt.Sprint(c.Seed) + " -seconds 45"},
			strings.Split(lastLines(text, 60), "\n"))
		what := "data race or invariant violation under concurrent use"
		if err != nil && !strings.Contains(text, "DATA RACE") && !strings.Contains(text, "INVARIANT:") {
			what = "race driver failed to run: " + err.Error()
		}
		c.Res.Fail("oracle", "", what, rp)
	}
}

func lastLines(s string, n int) string {
	ls := strings.Split(strings.TrimRight(s, "\n"), "\n")
	if len(ls) > n {
		ls = ls[len(ls)-n:]
	}
	return strings.Join(ls, "\n")
}
