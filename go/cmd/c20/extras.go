package main

import "verifharness/internal/vh"

func probes(c *vh.Ctx)          {}
func tickerScenario(c *vh.Ctx)  {}
func raceExploration(c *vh.Ctx) {}
