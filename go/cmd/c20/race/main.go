// Concurrent exploration of the real transaction pool under the race detector (thorough tier of C20):
//
//	go run -race -tags verif ./cmd/c20/race -seed N -seconds S
//
// Submitters (remote, local, batches), a chain-head feeder (the pool's own loop() issues the resets), a re-pricer and
// readers (Pending/Content/Stats/Nonce/Status/Get) hammer one pool; at the end the pool is brought to quiescence and
// the invariant clauses are checked on its internal views. Prints RACE-OK, or INVARIANT: lines. Exploration, not proof.
package main

import (
	"crypto/ecdsa"
	"flag"
	"fmt"
	"math/big"
	"os"
	"sync"
	"sync/atomic"
	"time"

	"github.com/youchainhq/go-youchain/common"
	"github.com/youchainhq/go-youchain/core"
	"github.com/youchainhq/go-youchain/core/state"
	"github.com/youchainhq/go-youchain/core/types"
	"github.com/youchainhq/go-youchain/crypto"
	"github.com/youchainhq/go-youchain/event"
	"github.com/youchainhq/go-youchain/params"
	"github.com/youchainhq/go-youchain/youdb"
	"verifharness/internal/quiet"
	"verifharness/internal/vh"
)

type chain struct {
	mu      sync.Mutex
	statedb *state.StateDB
	head    *types.Block
	blocks  map[common.Hash]*types.Block
	feed    event.Feed
	proc    core.Processor
}

func (bc *chain) Processor() core.Processor { return bc.proc }
func (bc *chain) CurrentBlock() *types.Block {
	bc.mu.Lock()
	defer bc.mu.Unlock()
	return bc.head
}
func (bc *chain) GetBlock(h common.Hash, n uint64) *types.Block {
	bc.mu.Lock()
	defer bc.mu.Unlock()
	return bc.blocks[h]
}
func (bc *chain) StateAt(common.Hash, common.Hash, common.Hash) (*state.StateDB, error) {
	bc.mu.Lock()
	defer bc.mu.Unlock()
	return bc.statedb, nil
}
func (bc *chain) SubscribeChainHeadEvent(ch chan<- core.ChainHeadEvent) event.Subscription {
	return bc.feed.Subscribe(ch)
}

func main() {
	seed := flag.Uint64("seed", 1, "")
	seconds := flag.Int("seconds", 30, "")
	flag.Parse()
	quiet.Silence()
	params.InitNetworkId(params.NetworkIdForTestCase)
	const nAcc = 5
	var keys []*ecdsa.PrivateKey
	var addrs []common.Address
	statedb, _ := state.New(common.Hash{}, common.Hash{}, common.Hash{}, state.NewDatabase(youdb.NewMemDatabase()))
	for i := 0; i < nAcc; i++ {
		k, _ := crypto.ToECDSA(crypto.Keccak256([]byte(fmt.Sprintf("verif-c20-race-%d", i))))
		keys = append(keys, k)
		a := crypto.PubkeyToAddress(k.PublicKey)
		addrs = append(addrs, a)
		statedb.SetBalance(a, new(big.Int).SetUint64(1_000_000_000_000_000))
	}
	bc := &chain{statedb: statedb, blocks: map[common.Hash]*types.Block{}, proc: core.NewStateProcessor(nil, nil)}
	bc.head = types.NewBlock(&types.Header{Number: big.NewInt(100), GasLimit: 1_000_000}, nil, nil)
	bc.blocks[bc.head.Hash()] = bc.head
	pool := core.NewTxPool(core.TxPoolConfig{Journal: "", Rejournal: time.Hour, PriceLimit: 1, PriceBump: 10,
		AccountSlots: 4, GlobalSlots: 24, AccountQueue: 6, GlobalQueue: 20, Lifetime: time.Hour}, bc)
	signer := types.MakeSigner(big.NewInt(100))
	var stop int32
	var wg sync.WaitGroup
	var submitted, resets int64
	root := vh.NewRNG(*seed)
	mk := func(r *vh.RNG, a int, nonce uint64) *types.Transaction {
		var to common.Address
		copy(to[:], r.Bytes(20))
		tx, _ := types.SignTx(types.NewTransaction(nonce, to, big.NewInt(int64(r.Intn(1000))), 21000, big.NewInt(int64(r.Range(1, 50))), nil), signer, keys[a])
		return tx
	}
	// submitters
	for g := 0; g < 4; g++ {
		r := root.Fork()
		g := g
		wg.Add(1)
		go func() {
			defer wg.Done()
			for atomic.LoadInt32(&stop) == 0 {
				a := r.Intn(nAcc)
				base := pool.Nonce(addrs[a])
				switch r.Intn(4) {
				case 0:
					pool.AddRemotes([]*types.Transaction{mk(r, a, base+uint64(r.Intn(3)))})
				case 1:
					var txs []*types.Transaction
					for i := 0; i < r.Range(2, 6); i++ {
						txs = append(txs, mk(r, a, base+uint64(i)))
					}
					pool.AddRemotesSync(txs)
				case 2:
					if g == 0 {
						pool.AddLocals([]*types.Transaction{mk(r, a, base+uint64(r.Intn(4)))})
					} else {
						pool.AddRemote(mk(r, a, base))
					}
				case 3:
					if base > 0 {
						pool.AddRemote(mk(r, a, base-1)) // replacement attempt / nonce too low
					}
				}
				atomic.AddInt64(&submitted, 1)
			}
		}()
	}
	// chain-head feeder: the pool's own loop() turns these into resets
	{
		r := root.Fork()
		wg.Add(1)
		go func() {
			defer wg.Done()
			for atomic.LoadInt32(&stop) == 0 {
				time.Sleep(time.Duration(r.Range(1, 8)) * time.Millisecond)
				bc.mu.Lock()
				ns := bc.statedb.Copy()
				for i, a := range addrs {
					switch r.Intn(5) {
					case 0:
						ns.SetNonce(a, ns.GetNonce(a)+uint64(r.Range(1, 3)))
					case 1:
						if n := ns.GetNonce(a); n > 0 && r.Chance(30) {
							ns.SetNonce(a, n-1) // reorg
						}
					case 2:
						if i%2 == 0 && r.Chance(20) {
							ns.SetBalance(a, new(big.Int).SetUint64(uint64(r.Range(0, 3))*1_000_000))
						} else {
							ns.SetBalance(a, new(big.Int).SetUint64(1_000_000_000_000_000))
						}
					}
				}
				parent := bc.head
				nb := types.NewBlock(&types.Header{Number: new(big.Int).Add(parent.Number(), big.NewInt(1)), ParentHash: parent.Hash(), GasLimit: 1_000_000, Time: uint64(r.Intn(1 << 30))}, nil, nil)
				bc.blocks[nb.Hash()] = nb
				bc.head = nb
				bc.statedb = ns
				bc.mu.Unlock()
				bc.feed.Send(core.ChainHeadEvent{Block: nb})
				atomic.AddInt64(&resets, 1)
			}
		}()
	}
	// re-pricer
	{
		r := root.Fork()
		wg.Add(1)
		go func() {
			defer wg.Done()
			for atomic.LoadInt32(&stop) == 0 {
				time.Sleep(time.Duration(r.Range(2, 15)) * time.Millisecond)
				pool.SetGasPrice(big.NewInt(int64(r.Range(1, 20))))
			}
		}()
	}
	// readers
	for g := 0; g < 2; g++ {
		r := root.Fork()
		wg.Add(1)
		go func() {
			defer wg.Done()
			for atomic.LoadInt32(&stop) == 0 {
				p, _ := pool.Pending()
				var hs []common.Hash
				for _, txs := range p {
					for _, tx := range txs {
						hs = append(hs, tx.Hash())
					}
				}
				pool.Status(hs)
				for _, h := range hs {
					pool.Get(h)
				}
				pool.Content()
				pool.Stats()
				pool.Locals()
				pool.GasPrice()
				pool.Nonce(addrs[r.Intn(nAcc)])
			}
		}()
	}
	time.Sleep(time.Duration(*seconds) * time.Second)
	atomic.StoreInt32(&stop, 1)
	wg.Wait()
	// quiescence: let queued head events drain, then one synchronous reset + promotion run
	time.Sleep(200 * time.Millisecond)
	pool.VerifC20ResetSync(nil, bc.CurrentBlock().Header())
	pool.VerifC20PromoteSync()
	d := pool.VerifC20Dump(addrs)
	bad := 0
	fail := func(f string, a ...interface{}) { bad++; fmt.Printf("INVARIANT: "+f+"\n", a...) }
	inAll := map[common.Hash]bool{}
	for _, h := range d.All {
		inAll[h] = true
	}
	seen := map[common.Hash]bool{}
	cnt := 0
	for _, m := range []map[common.Address]*core.VerifC20List{d.Pending, d.Queue} {
		for _, l := range m {
			for _, h := range l.Txs {
				if seen[h] {
					fail("transaction %x indexed twice", h[:4])
				}
				seen[h] = true
				cnt++
				if !inAll[h] {
					fail("transaction %x listed but not in the lookup", h[:4])
				}
			}
			if !l.IndexOK || !l.CacheOK {
				fail("list index/cache out of step")
			}
		}
	}
	if cnt != len(d.All) {
		fail("lookup %d != pending+queued %d", len(d.All), cnt)
	}
	if len(d.Priced)-d.Stales != len(d.All) {
		fail("priced %d - stales %d != lookup %d", len(d.Priced), d.Stales, len(d.All))
	}
	for _, a := range addrs {
		sn := d.StateNonces[a]
		np := 0
		if l := d.Pending[a]; l != nil {
			np = len(l.Txs)
			for i, n := range l.Nonces {
				if n != sn+uint64(i) {
					fail("pending of %x not gap-free from %d: %v", a[:4], sn, l.Nonces)
					break
				}
			}
		}
		if l := d.Queue[a]; l != nil {
			for _, n := range l.Nonces {
				if n < sn+uint64(np) {
					fail("queued nonce %d of %x not above pending end %d", n, a[:4], sn+uint64(np))
				}
			}
		}
		if d.PendingNonces[a] != sn+uint64(np) {
			fail("virtual nonce of %x is %d, state %d + pending %d", a[:4], d.PendingNonces[a], sn, np)
		}
	}
	pool.Stop()
	fmt.Printf("submitted=%d resets=%d pooled=%d\n", submitted, resets, len(d.All))
	if bad > 0 {
		os.Exit(1)
	}
	fmt.Println("RACE-OK")
}
