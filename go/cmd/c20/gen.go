package main

// Seeded structured generator of pool operation sequences (mostly valid + a malformed stream).

import (
	"github.com/youchainhq/go-youchain/params"
	"verifharness/internal/vh"
)

type genState struct {
	r         *vh.RNG
	w         *world
	nextID    uint64
	usedPrice map[uint64]bool
	serial    uint64
	dist      func(string)
}

func genConfig(r *vh.RNG) (poolCfg, [][2]uint64) {
	cfg := poolCfg{
		as: uint64(r.Range(1, 4)), gs: uint64(r.Range(2, 9)), aq: uint64(r.Range(1, 5)), gq: uint64(r.Range(2, 9)),
		bump: 10, priceLimit: uint64(r.Range(1, 3)) * 1000, gasLimit: 100000,
	}
	if r.Chance(15) {
		cfg.bump = uint64(r.Range(1, 60))
	}
	if r.Chance(25) { // roomy pool: long gap-free runs, few evictions
		cfg.as, cfg.gs, cfg.aq, cfg.gq = uint64(r.Range(4, 16)), uint64(r.Range(16, 64)), uint64(r.Range(4, 16)), uint64(r.Range(16, 64))
	}
	n := r.Range(1, 6)
	var accts [][2]uint64
	for i := 0; i < n; i++ {
		accts = append(accts, [2]uint64{uint64(r.Intn(4)), genBalance(r)})
	}
	return cfg, accts
}

func genBalance(r *vh.RNG) uint64 {
	switch r.Intn(6) {
	case 0:
		return 0
	case 1:
		return uint64(r.Range(1, 9)) * 100_000_000 // a few typical transactions
	default:
		return 1_000_000_000_000
	}
}

// fresh unique price in tier `tier` (tier*1000 .. tier*1000+999)
func (g *genState) price(tier uint64) uint64 {
	g.serial++
	p := tier*1000 + g.serial%1000
	return g.uniq(p)
}
func (g *genState) uniq(p uint64) uint64 {
	for g.usedPrice[p] {
		p++
	}
	g.usedPrice[p] = true
	return p
}

func (g *genState) newID() uint64 { g.nextID++; return g.nextID }

func (g *genState) pooledOf(v *view, a int) []uint64 {
	return append(append([]uint64{}, v.pending[a]...), v.queue[a]...)
}

// one transaction for account a given the current real view
func (g *genState) genTx(v *view, a int) mtx {
	r := g.r
	addr := g.w.addrs[a]
	stateNonce := v.d.StateNonces[addr]
	pn := v.d.PendingNonces[addr]
	bal := v.d.StateBalances[addr].Uint64()
	t := mtx{id: g.newID(), sender: uint64(a), intr: params.TxGas}
	nz := uint64(0)
	if r.Chance(25) {
		nz = uint64(r.Range(1, 3))
	}
	t.intr = params.TxGas + nz*params.TxDataNonZeroGas
	// nonce
	class := r.Weighted([]int{48, 16, 14, 6, 5, 3})
	pooled := g.pooledOf(v, a)
	tier := uint64(r.Range(1, 9))
	t.price = 0
	switch class {
	case 0:
		t.nonce = pn
		g.dist("tx-next")
	case 1:
		t.nonce = pn + uint64(r.Range(1, 3))
		g.dist("tx-gapped")
	case 2:
		if len(pooled) > 0 {
			old := g.w.desc[pooled[r.Intn(len(pooled))]]
			t.nonce = old.nonce
			thr := old.price * (100 + g.w.cfg.bump) / 100
			switch r.Intn(5) {
			case 0:
				t.price = g.uniq(thr) // exactly the threshold (or the next free price)
			case 1:
				if thr > 0 {
					t.price = g.uniq(thr - 1)
				}
			case 2:
				t.price = g.uniq(old.price + 1)
			default:
				t.price = g.uniq(thr + uint64(r.Range(1, 2000)))
			}
			g.dist("tx-replacing")
		} else {
			t.nonce = pn
			g.dist("tx-next")
		}
	case 3:
		if stateNonce > 0 {
			t.nonce = uint64(r.Intn(int(stateNonce)))
			g.dist("tx-nonce-too-low")
		} else {
			t.nonce = pn
			g.dist("tx-next")
		}
	case 4:
		t.nonce = stateNonce + uint64(r.Intn(int(pn-stateNonce)+3))
		g.dist("tx-anywhere")
	case 5:
		t.nonce = pn + uint64(r.Range(10, 1000))
		g.dist("tx-far-future")
	}
	if t.price == 0 {
		if r.Chance(8) {
			gp := v.d.GasPrice.Uint64()
			if gp > 1 {
				t.price = g.uniq(uint64(r.Intn(int(gp))))
				g.dist("tx-below-pool-price")
			}
		}
		if t.price == 0 {
			t.price = g.price(tier)
		}
	}
	// gas
	switch r.Weighted([]int{62, 20, 6, 6, 6}) {
	case 0:
		t.gas = t.intr
	case 1:
		t.gas = t.intr + uint64(r.Intn(int(v.d.MaxGas-t.intr)+1))
	case 2:
		t.gas = v.d.MaxGas + uint64(r.Range(1, 5000))
		g.dist("tx-over-gas-limit")
	case 3:
		t.gas = t.intr - uint64(r.Range(1, 2000))
		g.dist("tx-below-intrinsic")
	case 4:
		t.gas = v.d.MaxGas - uint64(r.Intn(3))
	}
	// value
	base := t.price * t.gas
	switch r.Weighted([]int{60, 20, 12, 8}) {
	case 0:
		t.value = uint64(r.Intn(1000))
	case 1:
		if bal > base {
			t.value = bal - base - uint64(r.Intn(2)) // exactly affordable, or by one
		}
	case 2:
		if bal >= base {
			t.value = bal - base + uint64(r.Range(1, 3)) // unaffordable by a hair
		} else {
			t.value = 0
		}
		g.dist("tx-unaffordable")
	case 3:
		t.value = bal/2 + uint64(r.Intn(1000))
	}
	// malformed stream
	if r.Chance(4) {
		switch r.Intn(3) {
		case 0:
			t.flags = flOversized
			t.intr = params.TxGas + 33*1024*params.TxDataZeroGas
			if t.gas < t.intr && r.Bool() {
				t.gas = t.intr
			}
			g.dist("tx-oversized")
		case 1:
			t.flags = flNegValue
			g.dist("tx-negative-value")
		case 2:
			t.flags = flBadSig
			g.dist("tx-bad-signature")
		}
	}
	return t
}

// Note: a transaction that was pooled and has left the pool is never submitted again: every generated transaction
// has a fresh id, and resubmissions / reinjections of old ones pick currently pooled transactions only (duplicate
// heap entries of one transaction make Discard depend on re-heap timing, i.e. on Go map order; see level_note).

func (g *genState) genOp(v *view) op {
	r := g.r
	n := len(g.w.addrs)
	if n <= 4 && r.Chance(4) {
		return g.genMreset(v)
	}
	switch r.Weighted([]int{34, 10, 16, 16, 5, 8, 7, 4}) {
	case 0, 1: // single remote / local
		o := op{kind: "add", local: false}
		if r.Chance(22) {
			o.local = true
		} else if r.Chance(25) {
			o.async = true
			g.dist("add-async-racing-reads")
		}
		a := r.Intn(n)
		if r.Chance(4) {
			// resubmit a known transaction
			p := g.pooledOf(v, a)
			if len(p) > 0 {
				o.txs = []mtx{g.w.desc[p[r.Intn(len(p))]]}
				g.dist("tx-known")
				return o
			}
		}
		o.txs = []mtx{g.genTx(v, a)}
		return o
	case 2: // batch
		o := op{kind: "add", local: r.Chance(15)}
		if !o.local && r.Chance(25) {
			o.async = true
			g.dist("add-async-racing-reads")
		}
		k := r.Range(2, 6)
		a := r.Intn(n)
		addr := g.w.addrs[a]
		run := v.d.PendingNonces[addr]
		for i := 0; i < k; i++ {
			if r.Chance(30) {
				a = r.Intn(n)
				addr = g.w.addrs[a]
				run = v.d.PendingNonces[addr]
			}
			t := g.genTx(v, a)
			if r.Chance(70) && t.flags == 0 { // consecutive run
				t.nonce = run
				run++
			}
			o.txs = append(o.txs, t)
		}
		g.dist("add-batch")
		return o
	case 3: // reset
		o := op{kind: "reset", lo: 1, ln: 1, gasLimit: v.d.MaxGas}
		o.scenario = r.Weighted([]int{40, 30, 5, 4, 4, 4, 4, 4})
		if r.Chance(25) {
			o.gasLimit = []uint64{100000, 60000, 30000, 21000, 200000}[r.Intn(5)]
		}
		for a := 0; a < n; a++ {
			if !r.Chance(60) {
				continue
			}
			addr := g.w.addrs[a]
			sn, pn := v.d.StateNonces[addr], v.d.PendingNonces[addr]
			nn := sn
			switch r.Weighted([]int{30, 30, 15, 15, 10}) {
			case 0:
				nn = sn + uint64(r.Intn(int(pn-sn)+1)) // some pending got mined
			case 1:
				nn = pn // all pending mined
			case 2:
				nn = pn + uint64(r.Range(1, 3)) // beyond: others' transactions mined
			case 3:
				if sn > 0 {
					nn = sn - uint64(r.Range(1, int(min64(sn, 3)))) // reorg lowers the nonce
				}
			case 4:
			}
			bal := v.d.StateBalances[addr].Uint64()
			if r.Chance(50) {
				bal = genBalance(r)
			}
			o.changes = append(o.changes, [3]uint64{uint64(a), nn, bal})
		}
		if o.scenario == scFork {
			o.lo, o.ln = r.Range(1, 3), r.Range(1, 3)
			// discarded: fresh transactions around the (new) nonces + some currently pooled ones
			newNonce := func(a int) uint64 {
				for _, c := range o.changes {
					if int(c[0]) == a {
						return c[1]
					}
				}
				return v.d.StateNonces[g.w.addrs[a]]
			}
			nd := r.Range(0, 6)
			for i := 0; i < nd; i++ {
				a := r.Intn(n)
				if r.Chance(20) {
					if p := g.pooledOf(v, a); len(p) > 0 {
						o.disc = append(o.disc, g.w.desc[p[r.Intn(len(p))]])
						continue
					}
				}
				t := g.genTx(v, a)
				if r.Chance(70) {
					t.nonce = newNonce(a) + uint64(r.Intn(3))
				}
				o.disc = append(o.disc, t)
			}
			for _, t := range o.disc {
				if r.Chance(35) {
					o.incl = append(o.incl, t)
				}
			}
			if r.Chance(30) {
				a := r.Intn(n)
				if p := g.pooledOf(v, a); len(p) > 0 {
					o.incl = append(o.incl, g.w.desc[p[r.Intn(len(p))]])
				}
			}
			if r.Chance(20) && len(o.disc) > 0 { // the same transaction in two discarded blocks
				o.disc = append(o.disc, o.disc[r.Intn(len(o.disc))])
			}
		}
		g.dist([]string{"reset-plain", "reset-fork", "reset-deep", "reset-missing-old-lower", "reset-missing-old-upper", "reset-unrooted", "reset-state-error", "reset-nil-old"}[o.scenario])
		return o
	case 4: // re-pricing
		o := op{kind: "price"}
		switch r.Intn(4) {
		case 0:
			o.price = 1
		case 1:
			// just above some pooled transaction's price
			var ids []uint64
			for id := range v.all {
				ids = append(ids, id)
			}
			if len(ids) > 0 {
				sortU(ids)
				o.price = g.w.desc[ids[r.Intn(len(ids))]].price + uint64(r.Intn(2))
			} else {
				o.price = uint64(r.Range(1, 9)) * 1000
			}
		default:
			o.price = uint64(r.Range(1, 9))*1000 + uint64(r.Intn(1000))
		}
		return o
	case 5: // removal
		// outofbound=false is reserved for callers that already popped the transaction off the priced heap
		// (SetGasPrice, add's Discard); a stand-alone removal is always out of bound
		o := op{kind: "remove", oob: true}
		var ids []uint64
		for id := range v.all {
			ids = append(ids, id)
		}
		if len(ids) == 0 || r.Chance(8) {
			// unknown transaction
			o.txs = []mtx{g.genTx(v, r.Intn(n))}
			o.txs[0].flags = 0
			o.txs[0].intr = params.TxGas
			g.dist("remove-unknown")
			return o
		}
		sortU(ids)
		o.txs = []mtx{g.w.desc[ids[r.Intn(len(ids))]]}
		return o
	case 6:
		return op{kind: "evict", k: r.Intn(len(v.beatOrder) + 2)}
	default:
		return op{kind: "promote"}
	}
}

// genMreset: head changes cur->A, A->B, B->C delivered while the run for cur->A is still busy; C is a sibling of B,
// a sibling of A (shorter branch) or a child of B.
func (g *genState) genMreset(v *view) op {
	r := g.r
	n := len(g.w.addrs)
	o := op{kind: "mreset", shape: r.Weighted([]int{45, 35, 20}), gls: [3]uint64{v.d.MaxGas, v.d.MaxGas, v.d.MaxGas}}
	if r.Chance(20) {
		o.gls[r.Intn(3)] = []uint64{100000, 60000, 30000, 200000}[r.Intn(4)]
	}
	cur := map[int][2]uint64{}
	for a := 0; a < n; a++ {
		addr := g.w.addrs[a]
		cur[a] = [2]uint64{v.d.StateNonces[addr], v.d.StateBalances[addr].Uint64()}
	}
	step := func(base map[int][2]uint64, lowerOK bool) (map[int][2]uint64, [][3]uint64) {
		next := map[int][2]uint64{}
		var ch [][3]uint64
		for a := 0; a < n; a++ {
			nb := base[a]
			if r.Chance(65) {
				pn := v.d.PendingNonces[g.w.addrs[a]]
				switch r.Weighted([]int{45, 25, 15, 15}) {
				case 0:
					nb[0] += uint64(r.Range(1, 2)) // a block mined some of the account's transactions
				case 1:
					if pn > nb[0] {
						nb[0] = pn
					}
				case 2:
					if lowerOK && nb[0] > 0 {
						nb[0]--
					}
				case 3:
					nb[1] = genBalance(r)
				}
				ch = append(ch, [3]uint64{uint64(a), nb[0], nb[1]})
			}
			next[a] = nb
		}
		return next, ch
	}
	stA, chA := step(cur, false)
	stB, chB := step(stA, false)
	o.chA, o.chB = chA, chB
	switch o.shape {
	case 0:
		_, o.chC = step(stA, true)
	case 1:
		_, o.chC = step(cur, true)
	case 2:
		_, o.chC = step(stB, false)
	}
	g.dist([]string{"mreset-sibling-equal-height", "mreset-shorter-branch", "mreset-growing"}[o.shape])
	return o
}

func min64(a, b uint64) uint64 {
	if a < b {
		return a
	}
	return b
}

func sortU(a []uint64) {
	for i := 1; i < len(a); i++ {
		for j := i; j > 0 && a[j-1] > a[j]; j-- {
			a[j-1], a[j] = a[j], a[j-1]
		}
	}
}
