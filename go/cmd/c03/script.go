package main

// Scripted world ("mode A"): the real Voter (consensus/ucon) driven through the C02/C03 hooks with scripted
// collaborators.  One op = one protocol line (the same text goes to the Lean driver and into replay files):
//
//	C round index step cert
//	V vt round index h p sender votes status nil sig claim stake kind T cred
//	ES vt sel votes kind T | EM exists p h | EB h present | EC b
//	D                                            (dump of the counting state, compared field by field)
//
// Block hashes, priorities and senders are small ids; id -> common.Hash is the big-endian embedding, sender id ->
// secp256k1 key from a fixed pool (id 0 is the Voter's own key).  Votes are really signed.

import (
	"crypto/ecdsa"
	"errors"
	"fmt"
	"math/big"
	"sort"
	"strconv"
	"strings"

	"github.com/youchainhq/go-youchain/common"
	"github.com/youchainhq/go-youchain/consensus/ucon"
	"github.com/youchainhq/go-youchain/core/types"
	"github.com/youchainhq/go-youchain/crypto"
	"github.com/youchainhq/go-youchain/params"
	"github.com/youchainhq/go-youchain/youdb"
)

const nKeys = 12

var (
	keys    []*ecdsa.PrivateKey
	addrIDs = map[common.Address]uint64{}
)

func initKeys() {
	if keys != nil {
		return
	}
	for i := 0; i < nKeys; i++ {
		b := make([]byte, 32)
		b[0], b[30], b[31] = 0x5a, byte(i), 0x77
		k, err := crypto.ToECDSA(b)
		if err != nil {
			panic(err)
		}
		keys = append(keys, k)
		addrIDs[crypto.PubkeyToAddress(k.PublicKey)] = uint64(i)
	}
}

func idHash(id uint64) common.Hash { return common.BigToHash(new(big.Int).SetUint64(id)) }
func hashID(h common.Hash) uint64  { return new(big.Int).SetBytes(h[24:]).Uint64() }
func addrID(a common.Address) uint64 {
	if id, ok := addrIDs[a]; ok {
		return id
	}
	return 999
}

type selT struct {
	votes uint32
	kind  uint64
	T     uint64
}

// curMsg is what the scripted collaborators answer for the vote being delivered.
type curMsg struct {
	T        uint64
	kind     uint64
	stakeErr bool
	cred     uint64
}

// world is one real Voter with its scripted environment and the bookkeeping the canonical dump needs.
type world struct {
	d        *ucon.VerifVoter
	env      *ucon.VerifEnv
	sel      map[uint64]*selT
	maxOK    bool
	maxP     uint64
	maxH     uint64
	missing  map[uint64]bool
	cur      curMsg
	hashes   []uint64 // key universe in first-seen order (mirrors the Lean driver)
	addrs    []uint64
	crashed  bool
	lastCert bool
	// e2e mode
	e2e *e2eWorld
	// ledger for the implementation-level oracle
	led               ledger
	lastCommitMembers []member
	pending           []pendingCommit // CommitEvents already posted: their vote sets must stay what they were at emission
	nLate             int
}

// pendingCommit is a CommitEvent captured at emission with a deep copy of its vote sets. Server.commit packs the event
// LATER on another goroutine, so the event must be an immutable snapshot: the harness keeps driving the Voter and compares.
type pendingCommit struct {
	ev       ucon.CommitEvent
	snap     string
	okAtOnce bool
	merged   bool
}

func voteSetDigest(m ucon.VotesInfoForBlockHash) string {
	var l []string
	for a, v := range m {
		pr := v.Proof
		if len(pr) > 4 {
			pr = pr[:4]
		}
		l = append(l, fmt.Sprintf("%d:%d/%d/%x", addrID(a), v.Votes, v.VoterIdx, pr))
	}
	sort.Strings(l)
	return strings.Join(l, ",")
}

func commitDigest(ev ucon.CommitEvent) string {
	return "pc[" + voteSetDigest(ev.ChamberPrecommits) + "] hpc[" + voteSetDigest(ev.HousePrecommits) + "] certs[" + voteSetDigest(ev.ChamberCerts) + "]"
}

// checkPending: no later delivery may change the vote sets of an event that was already posted.
func (w *world) checkPending() {
	for k := range w.pending {
		p := &w.pending[k]
		if p.snap == "" {
			continue
		}
		if now := commitDigest(p.ev); now != p.snap {
			w.led.fail(fmt.Sprintf("commit_event_snapshot: the vote sets of the CommitEvent of block %d in (%d,%d) changed after the event was posted (it is packed later by Server.commit): at emission %s, now %s",
				w.blockID(p.ev.Block), u64(p.ev.Round), p.ev.RoundIndex, p.snap, now), "")
			p.snap = ""
		}
	}
}

// finish: pack and verify the captured CommitEvents only now, after everything else was delivered (what the asynchronous
// Server.commit may see), on the real PackVotes + real verifier.
func (w *world) finish() {
	if w.crashed {
		return
	}
	w.checkPending()
	if w.e2e == nil {
		return
	}
	for _, p := range w.pending {
		if !p.okAtOnce || w.e2e.mergedBlock[p.ev.Block.Hash()] {
			continue // (a merged header re-uses the vote objects: the real order packs before any merge)
		}
		w.nLate++
		w.e2e.verify(p.ev)
		if ok, what := w.e2e.lastVerdict(); !ok {
			w.led.fail(fmt.Sprintf("commit_verifies: the CommitEvent of block %d in (%d,%d) verified when packed at once, but packed after the further deliveries: %s",
				w.blockID(p.ev.Block), u64(p.ev.Round), p.ev.RoundIndex, what), "")
		}
	}
}

func kindOf(k uint64) params.ValidatorKind {
	switch k {
	case 1:
		return params.KindChamber
	case 2:
		return params.KindHouse
	}
	return params.KindValidator
}

func addKey(l []uint64, k uint64) []uint64 {
	for _, x := range l {
		if x == k {
			return l
		}
	}
	return append(l, k)
}

func newWorld() *world {
	initKeys()
	w := &world{sel: map[uint64]*selT{}, missing: map[uint64]bool{}, hashes: []uint64{0}, addrs: []uint64{0}}
	w.env = &ucon.VerifEnv{
		IsValidator: func(round *big.Int, roundIndex uint32, step uint32, lb params.LookBackType) (bool, *ucon.StepView) {
			s := w.sel[uint64(step)]
			if s == nil {
				return false, nil
			}
			return true, &ucon.StepView{SortitionProof: []byte{1}, SubUsers: s.votes, ValidatorType: kindOf(s.kind), Threshold: s.T}
		},
		MaxPriority: func(round *big.Int, roundIndex uint32) (common.Hash, common.Hash, bool) {
			if !w.maxOK {
				return common.Hash{}, common.Hash{}, false
			}
			return w.hashOf(w.maxP), w.hashOf(w.maxH), true
		},
		BlockInCache: func(blockHash, priority common.Hash) *types.Block {
			if w.missing[w.hid(blockHash)] {
				return nil
			}
			if w.e2e != nil {
				return w.e2e.blocks[w.hid(blockHash)]
			}
			return ucon.VerifBlock(blockHash)
		},
		Stake: func(round *big.Int, addr common.Address, lb params.LookBackType) (uint64, params.ValidatorKind, error) {
			if w.cur.stakeErr {
				return 0, 0, errors.New("verif: stake")
			}
			return w.cur.T, kindOf(w.cur.kind), nil
		},
		VerifySortition: func(pub *ecdsa.PublicKey, data *ucon.SortitionData, lb params.LookBackType) error {
			if w.cur.cred == 0 {
				return errors.New("verif: sortition")
			}
			return nil
		},
	}
	w.d = ucon.NewVerifVoter(youdb.NewMemDatabase(), keys[0], w.env)
	return w
}

func parseOp(line string) (string, []uint64, error) {
	f := strings.Fields(line)
	if len(f) == 0 {
		return "", nil, fmt.Errorf("empty op")
	}
	var a []uint64
	for _, x := range f[1:] {
		n, err := strconv.ParseUint(x, 10, 64)
		if err != nil {
			return "", nil, err
		}
		a = append(a, n)
	}
	return f[0], a, nil
}

func vtName(vt uint64) ucon.VoteType {
	return ucon.VoteType(uint8(vt))
}

func retClass(st ucon.VerifC03Step) string {
	if st.Panic != "" {
		return "crash"
	}
	e := st.Err
	switch {
	case e == "":
		return "ok"
	case strings.Contains(e, "vote info is empty"):
		return "emptyVote"
	case strings.Contains(e, "certificate params"):
		return "certParams"
	case strings.Contains(e, "doesn't match the vote's address"):
		return "addrMismatch"
	case e == "verif: stake":
		return "stakeErr"
	case e == "verif: sortition":
		return "sortitionErr"
	// the real Server.getLookbackStakeInfo / verifySortition (e2e world)
	case strings.Contains(e, "GetValidatorByMainAddr failed"), strings.Contains(e, "Node is offline"), strings.Contains(e, "lookBackHeader not found"), strings.Contains(e, "GetStakeByKind failed"):
		return "stakeErr"
	case strings.Contains(e, "sub-users' number is not correct"), strings.Contains(e, "not a validator"), strings.Contains(e, "verify seed failed"), strings.Contains(e, "totalStake is 0"):
		return "sortitionErr"
	}
	return "badSig"
}

func entriesStr(m ucon.VotesInfoForBlockHash) string {
	type e struct{ a, v uint64 }
	var es []e
	for a, v := range m {
		es = append(es, e{addrID(a), uint64(v.Votes)})
	}
	sort.Slice(es, func(i, j int) bool { return es[i].a < es[j].a || (es[i].a == es[j].a && es[i].v < es[j].v) })
	var sb strings.Builder
	sb.WriteString("[")
	for i, x := range es {
		if i > 0 {
			sb.WriteString(",")
		}
		fmt.Fprintf(&sb, "%d:%d", x.a, x.v)
	}
	sb.WriteString("]")
	return sb.String()
}

func b01(b bool) int {
	if b {
		return 1
	}
	return 0
}

func u64(x *big.Int) uint64 {
	if x == nil {
		return 0
	}
	return x.Uint64()
}

// blockID maps the block of a CommitEvent back to the script's hash id.
func (w *world) blockID(b *types.Block) uint64 {
	if w.e2e != nil {
		return w.e2e.blockID(b)
	}
	return hashID(ucon.VerifBlockHash(b))
}

func (w *world) canon(st ucon.VerifC03Step) (string, []string) {
	var evs []string
	for _, s := range st.Sends {
		evs = append(evs, fmt.Sprintf("signed %d %d %d %d %d %d", uint8(s.Kind), u64(s.Round), s.RoundIndex, w.hid(s.Hash), w.hid(s.Priority), s.Votes))
	}
	for _, c := range st.Commits {
		cert := c.ChamberCerts != nil
		evs = append(evs, fmt.Sprintf("commit %d %d %d %d pc=%s hpc=%s certs=%s", u64(c.Round), c.RoundIndex, w.blockID(c.Block), b01(cert),
			entriesStr(c.ChamberPrecommits), entriesStr(c.HousePrecommits), entriesStr(c.ChamberCerts)))
	}
	for _, r := range st.Rices {
		evs = append(evs, fmt.Sprintf("rice %d %d %d %d", u64(r.Round), r.RoundIndex, w.hid(r.BlockHash), w.hid(r.Priority)))
	}
	for _, u := range st.Updates {
		evs = append(evs, fmt.Sprintf("update %d %d %d pc=%s hpc=%s", u64(u.Round), u.RoundIndex, w.hid(u.BlockHash), entriesStr(u.ChamberPrecommits), entriesStr(u.HousePrecommits)))
	}
	if st.Evidence > 0 {
		evs = append(evs, fmt.Sprintf("evidence %d", st.Evidence))
	}
	if st.Other > 0 {
		evs = append(evs, fmt.Sprintf("other %d", st.Other))
	}
	sort.Strings(evs)
	rc := retClass(st)
	inv := b01(st.Invalid)
	if rc == "crash" {
		inv = 0
	}
	out := fmt.Sprintf("%s %d", rc, inv)
	for _, e := range evs {
		if strings.HasPrefix(e, "evidence ") {
			continue // staking evidence is not part of the model (C05); the oracle checks when it may appear
		}
		out += " | " + e
	}
	return out, evs
}

// hid maps a hash / priority of the real code back to its script id.
func (w *world) hid(h common.Hash) uint64 {
	if w.e2e != nil {
		return w.e2e.hid(h)
	}
	return hashID(h)
}

func (w *world) hashOf(id uint64) common.Hash {
	if w.e2e != nil {
		return w.e2e.hashOf(id)
	}
	return idHash(id)
}

// apply runs one op on the real code and returns the canonical response line ("" for a dump it returns the dump).
func (w *world) apply(line string) (string, error) {
	k, a, err := parseOp(line)
	if err != nil {
		return "", err
	}
	need := map[string]int{"C": 4, "V": 15, "ES": 5, "EM": 3, "EB": 2, "EC": 1, "D": 0, "R": 0, "X": 1}
	n, ok := need[k]
	if !ok || len(a) != n {
		return "", fmt.Errorf("bad op %q", line)
	}
	if w.crashed && (k == "C" || k == "V" || k == "X") {
		return "crash 0", nil
	}
	switch k {
	case "C":
		st := w.d.C03Context(new(big.Int).SetUint64(a[0]), uint32(a[1]), uint32(a[2]), a[3] != 0)
		if st.Panic != "" {
			w.crashed = true
		}
		w.verifyCommits(st)
		out, evs := w.canon(st)
		w.led.afterContext(w, a, st, evs)
		return out, nil
	case "V":
		w.hashes = addKey(w.hashes, a[3])
		w.addrs = addKey(w.addrs, a[5])
		if a[5] >= nKeys {
			return "", fmt.Errorf("sender id out of range")
		}
		w.cur = curMsg{T: a[13], kind: a[12], stakeErr: a[11] == 0, cred: a[14]}
		m := ucon.VerifC03Msg{VerifVoteMsg: ucon.VerifVoteMsg{Kind: vtName(a[0]), Round: new(big.Int).SetUint64(a[1]), RoundIndex: uint32(a[2]),
			Hash: w.hashOf(a[3]), Priority: w.hashOf(a[4]), Signer: keys[a[5]], Votes: uint32(a[6]), Status: int(a[7]), NilVote: a[8] != 0}, BadSig: a[9] == 0 || (a[9] != 1 && (w.e2e == nil || !w.e2e.bls))}
		if a[10] == 0 {
			m.ClaimedBy = keys[(a[5]+1)%nKeys]
		}
		if w.e2e != nil {
			w.e2e.prepareVote(w, a, &m)
		}
		st := w.d.C03Vote(m)
		if st.Panic != "" {
			w.crashed = true
		}
		w.verifyCommits(st)
		out, evs := w.canon(st)
		w.led.afterVote(w, a, st, evs)
		return out, nil
	case "X":
		// the chain inserter refused the committed block: Server.commit calls Voter.removeMarkedBlock(hash)
		if p := w.d.C03InsertFailed(w.hashOf(a[0])); p != "" {
			w.crashed = true
			return "crash 0", nil
		}
		return "ok 0", nil
	case "ES":
		if a[1] != 0 {
			w.sel[a[0]] = &selT{votes: uint32(a[2]), kind: a[3], T: a[4]}
		} else {
			delete(w.sel, a[0])
		}
		return "ok", nil
	case "EM":
		w.maxOK, w.maxP, w.maxH = a[0] != 0, a[1], a[2]
		w.hashes = addKey(w.hashes, a[2])
		return "ok", nil
	case "EB":
		if a[1] != 0 {
			delete(w.missing, a[0])
		} else {
			w.missing[a[0]] = true
		}
		return "ok", nil
	case "EC":
		w.env.CertParamsErr = a[0] != 0
		return "ok", nil
	case "D":
		return w.dump(), nil
	}
	return "", fmt.Errorf("bad op %q", line)
}

func (w *world) verifyCommits(st ucon.VerifC03Step) {
	w.checkPending()
	for _, ev := range st.Commits {
		p := pendingCommit{ev: ev, snap: commitDigest(ev), okAtOnce: true}
		if w.e2e != nil {
			w.e2e.verify(ev)
			p.okAtOnce, _ = w.e2e.lastVerdict()
		}
		w.pending = append(w.pending, p)
	}
	if w.e2e != nil {
		w.e2e.afterDelivery(w, st)
	}
}

func optHash(w *world, h *common.Hash) string {
	if h == nil {
		return "-"
	}
	return fmt.Sprint(w.hid(*h))
}

var vtOrder = []ucon.VoteType{ucon.Prevote, ucon.Precommit, ucon.NextIndex, ucon.Certificate}

func (w *world) dumpSta(tag string, s ucon.VerifC03Sta) string {
	var cs, is, as []string
	cnt := map[uint64]uint32{}
	for h, c := range s.Counts {
		cnt[w.hid(h)] = c
	}
	info := map[uint64]ucon.VotesInfoForBlockHash{}
	for h, m := range s.Info {
		mm := ucon.VotesInfoForBlockHash{}
		for a, v := range m {
			mm[a] = &ucon.SingleVote{Votes: v}
		}
		info[w.hid(h)] = mm
	}
	for _, h := range w.hashes {
		if cnt[h] != 0 {
			cs = append(cs, fmt.Sprintf("%d=%d", h, cnt[h]))
		}
		if len(info[h]) != 0 {
			is = append(is, fmt.Sprintf("%d=%s", h, entriesStr(info[h])))
		}
	}
	ad := map[uint64]ucon.VerifC03Addr{}
	for a, v := range s.Addrs {
		ad[addrID(a)] = v
	}
	for _, a := range w.addrs {
		if v, ok := ad[a]; ok {
			as = append(as, fmt.Sprintf("%d=%d/%d", a, w.hid(v.Hash), b01(v.Double)))
		}
	}
	if len(cs) == 0 && len(is) == 0 && len(as) == 0 {
		return ""
	}
	return fmt.Sprintf(" %s c(%s) i(%s) a(%s)", tag, strings.Join(cs, ","), strings.Join(is, ","), strings.Join(as, ","))
}

// dump renders the real Voter's state in exactly the format of the Lean driver's `D`.
func (w *world) dump() string {
	if w.crashed {
		return "crashed"
	}
	s := w.d.State()
	dd := w.d.C03Dump()
	var sb strings.Builder
	fmt.Fprintf(&sb, "st=%d r=%d i=%d s=%d pc=%d cm=%d sc=%d ce=%d sh=%d nm=%s cu=%s nv=%s", b01(s.Round != nil), u64(s.Round), s.RoundIndex, s.Step,
		b01(s.Precommitted), b01(s.Committed), b01(s.SentChangeEvent), b01(s.Certificated), b01(s.ShouldCert),
		optHash(w, s.NextMarked), optHash(w, s.CurMarked), optHash(w, s.NextVoted))
	dbr := "-"
	if s.DBRound != nil {
		dbr = s.DBRound.String()
	}
	fmt.Fprintf(&sb, " db=%s/%d/%d,%d,%d,%d", dbr, s.DBRoundIndex, s.DBMarks[ucon.Prevote], s.DBMarks[ucon.Precommit], s.DBMarks[ucon.NextIndex], s.DBMarks[ucon.Certificate])
	if dd.UpdateEv != nil {
		fmt.Fprintf(&sb, " ue=%d/%d/%d", u64(dd.UpdateEv.Round), dd.UpdateEv.RoundIndex, w.hid(dd.UpdateEv.BlockHash))
	} else {
		sb.WriteString(" ue=-")
	}
	over := map[uint64]map[params.ValidatorKind]map[ucon.VoteType]bool{}
	for h, m := range dd.VoteOver {
		over[w.hid(h)] = m
	}
	for _, h := range w.hashes {
		for _, k := range []params.ValidatorKind{params.KindChamber, params.KindHouse} {
			for _, t := range vtOrder {
				if over[h] != nil && over[h][k][t] {
					fmt.Fprintf(&sb, " O%d/%d/%d", h, b01(k == params.KindChamber), uint8(t))
				}
			}
		}
	}
	for _, ww := range dd.Wrappers {
		fmt.Fprintf(&sb, " W%d/%d", ww.Round, ww.RoundIndex)
		for _, k := range []params.ValidatorKind{params.KindChamber, params.KindHouse} {
			tag := "H"
			if k == params.KindChamber {
				tag = "C"
			}
			for _, t := range vtOrder {
				sb.WriteString(w.dumpSta(fmt.Sprintf("%s%d", tag, uint8(t)), ww.Sta[k][t]))
			}
		}
	}
	return sb.String()
}

// existOver checks Voter.existHashOverVotesThreshold (Server.startVote's question) against the counting state read through
// the hook: true iff the chamber and house totals of the prevotes, or of the precommits, of the current context reach the
// two thresholds.
func (w *world) existOver() string {
	if w.crashed {
		return ""
	}
	s := w.d.State()
	if s.Round == nil {
		return ""
	}
	dd := w.d.C03Dump()
	ww := findWrapper(dd, s.Round.Uint64(), uint64(s.RoundIndex))
	if ww == nil {
		return ""
	}
	tot := func(k params.ValidatorKind, t ucon.VoteType) uint32 {
		x := uint32(0)
		for _, c := range ww.Sta[k][t].Counts {
			x += c
		}
		return x
	}
	cPrev, hPrev := tot(params.KindChamber, ucon.Prevote), tot(params.KindHouse, ucon.Prevote)
	cPre, hPre := tot(params.KindChamber, ucon.Precommit), tot(params.KindHouse, ucon.Precommit)
	for _, th := range [][2]uint32{{cPrev, hPrev}, {cPrev + 1, 0}, {0, hPrev + 1}, {cPre, hPre}, {cPre + 1, hPre}, {0, 0}, {cPrev, hPre + 1}, {3, 0}} {
		want := (cPrev >= th[0] && hPrev >= th[1]) || (cPre >= th[0] && hPre >= th[1])
		if got := w.d.C03ExistOver(s.Round, s.RoundIndex, th[0], th[1]); got != want {
			return fmt.Sprintf("existHashOverVotesThreshold(%d,%d) = %v, the counting state (prevotes %d/%d, precommits %d/%d) says %v", th[0], th[1], got, cPrev, hPrev, cPre, hPre, want)
		}
	}
	if w.d.C03ExistOver(new(big.Int).Add(s.Round, big.NewInt(1)), s.RoundIndex, 0, 0) {
		return "existHashOverVotesThreshold answers for a context that is not the current one"
	}
	return ""
}

// aliasing checks the pointer facts the value model abstracts: votesMgr is the wrapper of the current context and
// every VotesManager believes the context of its ring slot.
func (w *world) aliasing() string {
	if w.crashed {
		return ""
	}
	s := w.d.State()
	dd := w.d.C03Dump()
	if s.Round == nil {
		if !dd.VotesMgrNil {
			return "votesMgr set before the first context"
		}
		return ""
	}
	found := false
	for _, ww := range dd.Wrappers {
		if ww.MgrRound == nil || ww.MgrRound.Uint64() != ww.Round || ww.MgrIndex != ww.RoundIndex {
			return fmt.Sprintf("ring slot (%d,%d) holds a manager for (%v,%d)", ww.Round, ww.RoundIndex, ww.MgrRound, ww.MgrIndex)
		}
		cur := ww.Round == s.Round.Uint64() && ww.RoundIndex == s.RoundIndex
		if ww.IsVotesMgr != cur {
			return fmt.Sprintf("votesMgr aliasing: slot (%d,%d) isVotesMgr=%v current=(%d,%d)", ww.Round, ww.RoundIndex, ww.IsVotesMgr, s.Round.Uint64(), s.RoundIndex)
		}
		if cur {
			found = true
		}
	}
	if !found {
		return "no wrapper for the current context"
	}
	if len(dd.Wrappers) > params.MaxVoteCacheCount {
		return "ring longer than MaxVoteCacheCount"
	}
	return ""
}
