package main

import (
	"fmt"
	"os"
	"strings"

	"github.com/youchainhq/go-youchain/params"
	"verifharness/internal/quiet"
	"verifharness/internal/vh"
)

func main() {
	if len(os.Args) >= 4 && os.Args[1] == "debug" {
		// c03 debug <driver> <script file>: print the real Voter's and the model's response to every line
		quiet.Silence()
		params.InitNetworkId(params.NetworkIdForTestCase)
		initKeys()
		body, _, err := vh.ReadReplay(os.Args[3])
		if err != nil {
			fmt.Println(err)
			os.Exit(2)
		}
		debugScript(body, os.Args[2])
		return
	}
	if len(os.Args) >= 4 && os.Args[1] == "gen-e2e" {
		// c03 gen-e2e <seed> <n>: print the n-th generated e2e script
		quiet.Silence()
		params.InitNetworkId(params.NetworkIdForTestCase)
		initKeys()
		var seed, n uint64
		fmt.Sscan(os.Args[2], &seed)
		fmt.Sscan(os.Args[3], &n)
		r := vh.NewRNG(seed)
		var lines []string
		mode := ""
		if len(os.Args) > 4 {
			mode = os.Args[4]
		}
		for k := uint64(0); k <= n; k++ {
			switch mode {
			case "upd", "updbls":
				lines = genE2EUpdate(r.Fork(), mode == "updbls")
			default:
				lines = genE2E(r.Fork(), mode == "lag", mode == "bls" || mode == "histbls", mode == "hist" || mode == "histbls")
			}
		}
		fmt.Println(strings.Join(lines, "\n"))
		return
	}
	vh.Main(vh.Harness{Property: "C03", Run: run, Replay: replay})
}

func debugScript(lines []string, drvPath string) {
	drv, err := vh.StartDriver(drvPath)
	if err != nil {
		fmt.Println(err)
		return
	}
	defer drv.Close()
	var w *world
	for _, l := range lines {
		if strings.HasPrefix(l, "E2E") {
			w, err = newE2EWorld(l, lines...)
			if err != nil {
				fmt.Println(err)
				return
			}
		}
	}
	if w == nil {
		w = newWorld()
	}
	drv.Ask("R")
	for _, l := range lines {
		if strings.HasPrefix(l, "E2E") || strings.HasPrefix(l, "HS ") {
			continue
		}
		if strings.HasPrefix(l, "U ") {
			var u uint64
			fmt.Sscanf(l, "U %d %d %d", &w.led.T, &w.led.Tc, &u)
			w.led.uniform = u != 0
			continue
		}
		if strings.HasPrefix(l, "S ") {
			if w.e2e != nil {
				var r, i uint64
				fmt.Sscanf(l, "S %d %d", &r, &i)
				w.e2e.setServer(r, i)
			}
			fmt.Println(l)
			continue
		}
		if w.e2e != nil {
			for _, es := range w.e2e.envLines(w, l) {
				w.apply(es)
				drv.Ask(es)
				fmt.Println("   [env]", es)
			}
		}
		g, err := w.apply(l)
		m, _ := drv.Ask(l)
		mark := "  "
		if g != m {
			mark = "!!"
		}
		fmt.Printf("%s %s\n     go   %s\n     lean %s\n", mark, l, g, m)
		if err != nil {
			fmt.Println("     error:", err)
		}
		if w.e2e != nil && strings.Contains(g, "commit ") {
			ok, what := w.e2e.lastVerdict()
			ha, _ := drv.Ask(fmt.Sprintf("HA %d %d", w.led.T, w.led.Tc))
			fmt.Printf("     real verifier: accepted=%v %s | model: %s\n", ok, what, ha)
		}
	}
	for _, v := range w.led.viol {
		fmt.Println("ORACLE:", v.what, "matcher="+v.matcher)
	}
}
