package main

// End-to-end world ("mode B"): the same op language, but nothing about credentials is scripted.
//
//   - a real validator set (state.StateDB with CreateValidator) behind a scripted chain reader;
//   - received votes carry REAL VRF sortition proofs (ucon.VrfSortition) and weights, or tampered ones;
//   - the Voter's verifySortitionFn / getStakeFn are the REAL Server.verifySortition / getLookbackStakeInfo;
//   - the Voter's own sortition is computed as SortitionManager.isValidator does;
//   - every CommitEvent goes through the REAL Server.commit (PackVotes -> header.Validator / header.Certificate) and the
//     sealed block is given to the REAL (*Server).VerifySideChainHeader; its verdict is the oracle for `commit_verifies`
//     and is compared with the model's headerAccepted.
//
// Header line of an e2e script:  E2E <seedByte> <T> <Tc> <round> <v0> <v1> ... : validator k (key k, key 0 = the Voter)
// is encoded as stake*4 + flag, flag 0 = chamber online, 1 = house, 2 = chamber offline, 3 = not in the set.
// `S round index` moves only the Server's own context (the Voter lags behind: verifySortition's leniency window).
// Block ids: 1..3 proposed at index 1, 21..22 proposed at index 2 (proposer = validator 1); other ids have no block.

import (
	"fmt"
	"math/big"
	"strconv"
	"strings"

	"github.com/youchainhq/go-youchain/bls"
	"github.com/youchainhq/go-youchain/common"
	"github.com/youchainhq/go-youchain/consensus/ucon"
	"github.com/youchainhq/go-youchain/core/state"
	"github.com/youchainhq/go-youchain/core/types"
	"github.com/youchainhq/go-youchain/crypto"
	"github.com/youchainhq/go-youchain/crypto/vrf"
	secp256k1VRF "github.com/youchainhq/go-youchain/crypto/vrf/secp256k1"
	"github.com/youchainhq/go-youchain/params"
	"github.com/youchainhq/go-youchain/rlp"
	"github.com/youchainhq/go-youchain/youdb"
	"verifharness/internal/vh"
)

type e2eVal struct {
	stake uint64
	flag  uint64
}

type sortRes struct {
	proof []byte
	j     uint32
}

// valSet is the validator set recorded at one look-back height.
type valSet struct {
	vals   []e2eVal
	st     *state.StateDB
	total  uint64 // chamber stake
	totalH uint64 // house stake
	root   common.Hash
	seed   common.Hash
	hdr    *types.Header
}

func (s *valSet) in(k uint64) bool { return int(k) < len(s.vals) && s.vals[k].flag != 3 }

type e2eWorld struct {
	T, Tc uint64
	round uint64
	// Look-back data by ROLE. Which height each role means is ground truth taken from the protocol parameters
	// (CaravelParams.StakeLookBack / SeedLookBack, params.ACoCHTFrequency), not from the code under test:
	//   stake  = validator set at round - StakeLookBack    (members, stakes, voter index of prevote/precommit/next votes, proposer)
	//   seed   = header at     round - SeedLookBack         (sortition seed of those votes)
	//   cstake = validator set at round - 2*ACoCHTFrequency (members, stakes, voter index of certificate votes)
	//   cseed  = header at     round - ACoCHTFrequency      (sortition seed and parameters of certificate votes)
	// Without HS lines all four roles are one header / one set (the worlds of the first rounds).
	stake, seedSet, cstake, cseedSet *valSet
	yp                               *params.YouParams
	chain                            *ucon.VerifC03Chain
	srv                              *ucon.VerifC03Server
	vrfSk                            []vrf.PrivateKey
	blocks                           map[uint64]*types.Block
	byHash                           map[common.Hash]uint64
	parent                           *types.Block
	declared                         map[uint64]bool
	cache                            map[string]sortRes
	lastOK                           bool
	lastWhat                         string
	w                                *world
	bls                              bool
	blsSk                            []bls.SecretKey
	commits                          map[common.Hash]*types.Block // sealed blocks the real Server.commit produced (by block hash)
	nMerged                          int
	history                          bool
	mergedBlock                      map[common.Hash]bool
}

var blsMgr = bls.NewBlsManager()

// setFor: the validator set a vote of kind vt is resolved against; seedFor: the seed its sortition uses.
func (e *e2eWorld) setFor(vt uint64) *valSet {
	if vt == 5 {
		return e.cstake
	}
	return e.stake
}
func (e *e2eWorld) seedFor(vt uint64) common.Hash {
	if vt == 5 {
		return e.cseedSet.seed
	}
	return e.seedSet.seed
}

func lookBackHeight(n, back uint64) uint64 {
	if n > back {
		return n - back
	}
	return 0
}

func parseNums(f []string) ([]uint64, error) {
	var a []uint64
	for _, x := range f {
		n, err := strconv.ParseUint(x, 10, 64)
		if err != nil {
			return nil, err
		}
		a = append(a, n)
	}
	return a, nil
}

func (e *e2eWorld) buildSet(encs []uint64, tag byte, seedByte uint64) (*valSet, error) {
	vs := &valSet{root: crypto.Keccak256Hash([]byte{0xc0, 0x03, tag}), seed: crypto.Keccak256Hash([]byte{byte(seedByte), 0xc0, 0x03, tag})}
	st, err := state.New(common.Hash{}, common.Hash{}, common.Hash{}, state.NewDatabase(youdb.NewMemDatabase()))
	if err != nil {
		return nil, err
	}
	for k, enc := range encs {
		v := e2eVal{stake: enc / 4, flag: enc % 4}
		vs.vals = append(vs.vals, v)
		if v.flag == 3 {
			continue
		}
		role, status := params.RoleChancellor, params.ValidatorOnline
		if v.flag == 1 {
			role = params.RoleHouse
		}
		if v.flag == 2 {
			status = params.ValidatorOffline
		}
		pub := crypto.CompressPubkey(&keys[k].PublicKey)
		addr := crypto.PubkeyToAddress(keys[k].PublicKey)
		bpk, err := e.blsSk[k].PubKey()
		if err != nil {
			return nil, err
		}
		bpub := bpk.Compress()
		nv := st.CreateValidator(fmt.Sprintf("v%d", k), addr, addr, role, pub, bpub[:], new(big.Int).SetUint64(v.stake), new(big.Int).SetUint64(v.stake), params.AcceptDelegation, 0, 0, uint8(status))
		if nv == nil {
			return nil, fmt.Errorf("CreateValidator failed for %d", k)
		}
	}
	vs.st = st
	stat, err := st.GetValidatorsStat()
	if err != nil {
		return nil, err
	}
	if ts := stat.GetStakeByKind(params.KindChamber); ts != nil {
		vs.total = ts.Uint64()
	}
	if ts := stat.GetStakeByKind(params.KindHouse); ts != nil {
		vs.totalH = ts.Uint64()
	}
	return vs, nil
}

func (e *e2eWorld) header(vs *valSet, number uint64) *types.Header {
	cons, _ := rlp.EncodeToBytes(&ucon.BlockConsensusData{Round: new(big.Int).SetUint64(number), RoundIndex: 1, Seed: vs.seed, SortitionProof: []byte{}, Signature: []byte{},
		ProposerThreshold: e.yp.ProposerThreshold, ValidatorThreshold: e.T, CertValThreshold: e.Tc})
	return &types.Header{Number: new(big.Int).SetUint64(number), ValRoot: vs.root, Consensus: cons, CurrVersion: params.YouCurrentVersion, MixDigest: types.UConMixHash,
		GasRewards: new(big.Int), Subsidy: new(big.Int)}
}

// newE2EWorld: lines[0] is the E2E / E2EB header; `HS <role> v0 v1 ...` lines (role seed | cstake | cseed | other) give
// the validator set recorded at the other look-back heights (a "history world").
func newE2EWorld(line string, extra ...string) (*world, error) {
	f := strings.Fields(line)
	if len(f) < 7 {
		return nil, fmt.Errorf("bad E2E line")
	}
	a, err := parseNums(f[1:])
	if err != nil {
		return nil, err
	}
	e := &e2eWorld{mergedBlock: map[common.Hash]bool{}, bls: f[0] == "E2EB", commits: map[common.Hash]*types.Block{}, T: a[1], Tc: a[2], round: a[3], blocks: map[uint64]*types.Block{}, byHash: map[common.Hash]uint64{}, declared: map[uint64]bool{}, cache: map[string]sortRes{}}
	initKeys()
	if len(a)-4 > nKeys {
		return nil, fmt.Errorf("too many validators")
	}
	for k := 0; k < nKeys; k++ {
		sk, err := secp256k1VRF.NewVRFSigner(keys[k])
		if err != nil {
			return nil, err
		}
		e.vrfSk = append(e.vrfSk, sk)
		bb := make([]byte, 32)
		bb[0], bb[30], bb[31] = 0x1b, byte(k), 0x35
		bsk, err := blsMgr.DecSecretKey(bb)
		if err != nil {
			return nil, err
		}
		e.blsSk = append(e.blsSk, bsk)
	}
	if e.stake, err = e.buildSet(a[4:], 1, a[0]); err != nil {
		return nil, err
	}
	e.seedSet, e.cstake, e.cseedSet = e.stake, e.stake, e.stake
	other := e.stake
	for _, l := range extra {
		hf := strings.Fields(l)
		if len(hf) < 3 || hf[0] != "HS" {
			continue
		}
		encs, err := parseNums(hf[2:])
		if err != nil {
			return nil, err
		}
		e.history = true
		switch hf[1] {
		case "seed":
			e.seedSet, err = e.buildSet(encs, 2, a[0])
		case "cstake":
			e.cstake, err = e.buildSet(encs, 3, a[0])
		case "cseed":
			e.cseedSet, err = e.buildSet(encs, 4, a[0])
		case "other":
			other, err = e.buildSet(encs, 5, a[0])
		}
		if err != nil {
			return nil, err
		}
	}
	// protocol parameters: the current version with the world's thresholds
	yp := params.Versions[params.YouCurrentVersion]
	yp.EnableBls = e.bls // E2EB: the path every shipped version uses; E2E: the secp256k1 path
	yp.ValidatorThreshold, yp.CertValThreshold = e.T, e.Tc
	// the proposer must be selected with >= 1 sub-user: proposer threshold = chamber stake gives p = 1, i.e. seats = stake
	// (p = threshold/total stake must stay <= 1: gonum's binomial CDF panics otherwise)
	yp.ProposerThreshold = e.stake.total
	params.Versions[params.YouCurrentVersion] = yp
	e.yp = &yp
	readers := map[common.Hash]state.ValidatorReader{}
	headers := map[uint64]*types.Header{}
	if !e.history {
		e.stake.hdr = e.header(e.stake, 1)
		readers[e.stake.root] = e.stake.st
		e.chain = &ucon.VerifC03Chain{Params: e.yp, Default: e.stake.hdr, Headers: headers, Readers: readers, ByHash: map[common.Hash]*types.Header{}}
	} else {
		// ground truth: which height each look-back role means, from the parameters
		F := params.ACoCHTFrequency
		hs := map[string]uint64{"stake": lookBackHeight(e.round, yp.StakeLookBack), "seed": lookBackHeight(e.round, yp.SeedLookBack),
			"cstake": lookBackHeight(e.round, 2*F), "cseed": lookBackHeight(e.round, F)}
		sets := map[string]*valSet{"stake": e.stake, "seed": e.seedSet, "cstake": e.cstake, "cseed": e.cseedSet}
		cert := e.round > 0 && e.round%F == 0
		for _, role := range []string{"stake", "seed", "cstake", "cseed"} {
			if !cert && (role == "cstake" || role == "cseed") {
				continue // not looked up in an ordinary round
			}
			if prev, ok := headers[hs[role]]; ok && prev.ValRoot != sets[role].root {
				return nil, fmt.Errorf("look-back heights of two roles coincide (%d): choose another round", hs[role])
			}
			sets[role].hdr = e.header(sets[role], hs[role])
			headers[hs[role]] = sets[role].hdr
			readers[sets[role].root] = sets[role].st
		}
		if !cert {
			e.cstake.hdr, e.cseedSet.hdr = e.stake.hdr, e.seedSet.hdr
		}
		other.hdr = e.header(other, 7)
		readers[other.root] = other.st
		e.chain = &ucon.VerifC03Chain{Params: e.yp, Default: other.hdr, Headers: headers, Readers: readers, ByHash: map[common.Hash]*types.Header{}}
	}
	e.srv = ucon.NewVerifC03Server(e.chain, new(big.Int).SetUint64(e.round), 1)
	// blocks
	e.parent = types.NewBlock(&types.Header{Number: new(big.Int).SetUint64(e.round - 1), MixDigest: types.UConMixHash, Extra: []byte("parent"), GasRewards: new(big.Int), Subsidy: new(big.Int)}, nil, nil)
	for _, id := range []uint64{1, 2, 3, 21, 22} {
		idx := uint32(1)
		if id > 20 {
			idx = 2
		}
		b, err := e.makeBlock(id, idx)
		if err != nil {
			return nil, err
		}
		e.blocks[id] = b
		e.byHash[b.Hash()] = id
	}
	w := newWorld()
	w.e2e = e
	e.w = w
	if e.bls {
		// the Voter's parameter and look-back managers are the real Server: BLS signing, signer recovery and packing
		w.d = ucon.NewVerifC03VoterOnServer(youdb.NewMemDatabase(), keys[0], e.blsSk[0], w.env, e.srv)
	}
	w.env.VerifySortition = e.srv.VerifySortition
	w.env.Stake = func(round *big.Int, addr common.Address, lb params.LookBackType) (uint64, params.ValidatorKind, error) {
		_, _, th, kind, err := e.srv.StakeInfo(round, addr, lb)
		return th, kind, err
	}
	w.env.IsValidator = func(round *big.Int, roundIndex uint32, step uint32, lb params.LookBackType) (bool, *ucon.StepView) {
		ok, j, proof, kind, th := e.ownSortition(roundIndex, uint64(step))
		if !ok {
			return false, nil
		}
		return true, &ucon.StepView{SortitionProof: proof, SubUsers: j, ValidatorType: kind, Threshold: th}
	}
	w.led.T, w.led.Tc, w.led.uniform = e.T, e.Tc, true
	return w, nil
}

// makeBlock builds a proposal of validator 1 as Server.Prepare does (consensus data with a real priority proof).
func (e *e2eWorld) makeBlock(id uint64, index uint32) (*types.Block, error) {
	if len(e.stake.vals) < 2 || e.stake.vals[1].flag != 0 || e.stake.total == 0 {
		return nil, fmt.Errorf("validator 1 must be an online chamber member (the proposer)")
	}
	stake := new(big.Int).SetUint64(e.stake.vals[1].stake)
	total := new(big.Int).SetUint64(e.stake.total)
	value, proof, j := ucon.VrfSortition(e.vrfSk[1], e.seedSet.seed, index, ucon.UConStepProposal, e.yp.ProposerThreshold, stake, total)
	cd := &ucon.BlockConsensusData{Round: new(big.Int).SetUint64(e.round), RoundIndex: index, Seed: crypto.Keccak256Hash(e.seedSet.seed[:]), SortitionProof: proof,
		Priority: ucon.VrfComputePriority(value, j), SubUsers: j, ProposerThreshold: e.yp.ProposerThreshold, ValidatorThreshold: e.T, CertValThreshold: e.Tc}
	if err := cd.SetSignature(keys[1]); err != nil {
		return nil, err
	}
	cons, err := rlp.EncodeToBytes(cd)
	if err != nil {
		return nil, err
	}
	h := &types.Header{ParentHash: e.parent.Hash(), Number: new(big.Int).SetUint64(e.round), MixDigest: types.UConMixHash, Consensus: cons,
		Extra: []byte(fmt.Sprintf("block-%d", id)), GasRewards: new(big.Int), Subsidy: new(big.Int), CurrVersion: params.YouCurrentVersion}
	return types.NewBlock(h, nil, nil), nil
}

func (e *e2eWorld) inSet(k uint64, vt uint64) bool { return e.setFor(vt).in(k) }

func (e *e2eWorld) blockID(b *types.Block) uint64 {
	if b == nil {
		return 0
	}
	return e.hid(b.Hash())
}

func (e *e2eWorld) hid(h common.Hash) uint64 {
	if id, ok := e.byHash[h]; ok {
		return id
	}
	return hashID(h)
}

func (e *e2eWorld) hashOf(id uint64) common.Hash {
	if b, ok := e.blocks[id]; ok {
		return b.Hash()
	}
	return idHash(id)
}

func (e *e2eWorld) setServer(r, i uint64) { e.srv.SetContext(new(big.Int).SetUint64(r), uint32(i)) }

// sortition of validator k for (index, vote kind): the real VrfSortition with the look-back data the Server would use.
func (e *e2eWorld) sortition(k uint64, index uint32, vt uint64) sortRes {
	key := fmt.Sprintf("%d/%d/%d", k, index, vt)
	if r, ok := e.cache[key]; ok {
		return r
	}
	th := e.T
	if vt == 5 {
		th = e.Tc
	}
	var res sortRes
	vs := e.setFor(vt)
	if int(k) < len(vs.vals) {
		tot := vs.total
		if vs.vals[k].flag == 1 {
			tot = vs.totalH
		}
		if tot > 0 && th <= tot {
			_, proof, j := ucon.VrfSortition(e.vrfSk[k], e.seedFor(vt), index, uint32(vt), th, new(big.Int).SetUint64(vs.vals[k].stake), new(big.Int).SetUint64(tot))
			res = sortRes{proof, j}
		}
	}
	e.cache[key] = res
	return res
}

func (e *e2eWorld) ownSortition(index uint32, vt uint64) (bool, uint32, []byte, params.ValidatorKind, uint64) {
	vs := e.setFor(vt)
	if !vs.in(0) || vs.vals[0].flag != 0 || vs.total == 0 {
		return false, 0, nil, 0, 0
	}
	s := e.sortition(0, index, vt)
	th := e.T
	if vt == 5 {
		th = e.Tc
	}
	return s.j > 0, s.j, s.proof, params.KindChamber, th
}

// envLines: what the model must be told before a delivery (own sortition for the context, blocks that do not exist).
func (e *e2eWorld) envLines(w *world, l string) []string {
	var out []string
	f := strings.Fields(l)
	if f[0] == "C" {
		idx, _ := strconv.ParseUint(f[2], 10, 32)
		for _, vt := range []uint64{2, 3, 4, 5} {
			ok, j, _, _, th := e.ownSortition(uint32(idx), vt)
			if ok {
				out = append(out, fmt.Sprintf("ES %d 1 %d 1 %d", vt, j, th))
			} else {
				out = append(out, fmt.Sprintf("ES %d 0 0 0 0", vt))
			}
		}
	}
	if f[0] == "V" {
		h, _ := strconv.ParseUint(f[4], 10, 64)
		if _, ok := e.blocks[h]; !ok && h != 0 && !e.declared[h] {
			e.declared[h] = true
			out = append(out, fmt.Sprintf("EB %d 0", h))
		}
	}
	if f[0] == "EM" {
		h, _ := strconv.ParseUint(f[3], 10, 64)
		if _, ok := e.blocks[h]; !ok && h != 0 && !e.declared[h] {
			e.declared[h] = true
			out = append(out, fmt.Sprintf("EB %d 0", h))
		}
	}
	return out
}

// prepareVote fills the real credential: the sender's true proof, unless the line says the credential is not valid
// (cred != 1), in which case the weight on the line differs from the sortition result or the proof is corrupted.
func (e *e2eWorld) prepareVote(w *world, a []uint64, m *ucon.VerifC03Msg) {
	s := e.sortition(a[5], uint32(a[2]), a[0])
	m.Proof = append([]byte{}, s.proof...)
	if len(m.Proof) == 0 {
		m.Proof = []byte{1}
	}
	if a[14] != 1 && uint64(s.j) == a[6] && len(m.Proof) > 8 {
		m.Proof[7] ^= 0x41
	}
	if e.bls {
		// a BLS vote names its signer by the index in the look-back validator list and carries a BLS signature
		m.VoterIdx = 9999
		if idx, ok := e.setFor(a[0]).st.GetValidators().GetIndex(crypto.PubkeyToAddress(keys[a[5]].PublicKey)); ok {
			m.VoterIdx = uint32(idx)
		}
		// a[9]: 1 = the member's BLS signature over this vote's payload; 0 = malformed bytes (truncated by the hook);
		// 2/3/4 = a well-formed signature of the member over ANOTHER block hash / round / index; 5 = another member's key;
		// 6 = a well-formed signature unrelated to anything; 7 = missing. Everything but 1 must be refused.
		signer := e.blsSk[a[5]%uint64(len(e.blsSk))]
		h, rd, ix := m.Hash, m.Round, m.RoundIndex
		switch a[9] {
		case 2:
			h = crypto.Keccak256Hash(h[:])
		case 3:
			rd = new(big.Int).Add(rd, big.NewInt(1))
		case 4:
			ix++
		case 5:
			signer = e.blsSk[(a[5]+1)%uint64(len(e.blsSk))]
		case 6:
			signer = e.blsSk[(a[5]+3)%uint64(len(e.blsSk))]
			h = crypto.Keccak256Hash([]byte("unrelated"))
		}
		sig := signer.Sign(ucon.VerifC03VotePayload(h, rd, ix)).Compress()
		m.RawSig = sig[:]
		if a[9] == 7 {
			m.RawSig = []byte{}
		}
	}
}

// afterDelivery: the header-update leg. Every UpdateExistedHeaderEvent the Voter posted is given to the REAL
// Server.updateBlockHeader (the committed headers are in the scripted chain); a header the merge rewrote must still be
// accepted by the real verifier and must not have lost a committer.
func (e *e2eWorld) afterDelivery(w *world, st ucon.VerifC03Step) {
	for _, ev := range st.Updates {
		blk := e.commits[ev.BlockHash]
		if blk == nil {
			continue
		}
		func() {
			defer func() {
				if r := recover(); r != nil {
					w.led.fail(fmt.Sprintf("update_preserves_verification: Server.updateBlockHeader / the verifier panicked on the update of block %d: %v", e.hid(ev.BlockHash), r), "")
				}
			}()
			n0 := len(e.chain.Updated)
			before, _ := ucon.ExtractUconValidators(blk.Header(), params.LookBackPos)
			e.srv.UpdateHeader(ev)
			if len(e.chain.Updated) == n0 {
				return
			}
			e.nMerged++
			e.mergedBlock[ev.BlockHash] = true
			hdr := e.chain.Updated[len(e.chain.Updated)-1]
			nb := blk.WithSeal(hdr)
			after, _ := ucon.ExtractUconValidators(hdr, params.LookBackPos)
			if before != nil && after != nil && len(after.ChamberCommitters) < len(before.ChamberCommitters) {
				w.led.fail(fmt.Sprintf("update_preserves_verification: the merge of block %d dropped committers (%d -> %d)", e.hid(ev.BlockHash), len(before.ChamberCommitters), len(after.ChamberCommitters)), "")
			}
			if err := e.srv.S.VerifySideChainHeader(&e.yp.CaravelParams, e.seedSet.hdr, e.stake.st, e.cseedSet.hdr, e.cstake.st, nb, []*types.Block{e.parent}); err != nil {
				w.led.fail(fmt.Sprintf("update_preserves_verification: the header of block %d committed in index %d verified, but after Server.updateBlockHeader merged the votes of an UpdateExistedHeaderEvent for (%d,%d) the real VerifySideChainHeader rejects it: %v",
					e.hid(ev.BlockHash), before.RoundIndex, u64(ev.Round), ev.RoundIndex, err), e.matchUpdate(before.RoundIndex, ev))
				return
			}
			e.commits[ev.BlockHash] = nb
		}()
	}
}

// matchUpdate names the known finding a rejected merged header belongs to.
func (e *e2eWorld) matchUpdate(committedIndex uint32, ev ucon.UpdateExistedHeaderEvent) string {
	return ""
}

// lineFor computes a consistent V line for the real world: weight, stake lookup, kind, threshold and credential class.
func (e *e2eWorld) lineFor(vt, r, i, h, p, sender, status uint64, tamper int, srvR, srvI uint64) string {
	s := e.sortition(sender, uint32(i), vt)
	votes := uint64(s.j)
	stakeOK, kind := uint64(1), uint64(1)
	vs := e.setFor(vt)
	if !vs.in(sender) || vs.vals[sender].flag == 2 {
		stakeOK = 0
	} else if vs.vals[sender].flag == 1 {
		kind = 2
	}
	th := e.T
	if vt == 5 {
		th = e.Tc
	}
	cred := uint64(1)
	valid := s.j > 0
	switch tamper {
	case 1:
		votes += 1 + uint64(sender) // inflated weight
		valid = false
	case 2:
		valid = false // corrupted proof (prepareVote flips a byte because the weight is unchanged)
	}
	if !valid {
		cred = 0
		if r < srvR || i < srvI {
			cred = 2
		}
	}
	sigOK := 1
	if e.bls && !vs.in(sender) {
		sigOK = 0 // no index in the validator list: the BLS signer cannot be recovered
	}
	return fmt.Sprintf("V %d %d %d %d %d %d %d %d 0 %d 1 %d %d %d %d", vt, r, i, h, p, sender, votes, status, sigOK, stakeOK, kind, th, cred)
}

// lastVerdict assembles the last CommitEvent into a block with the real Server.commit and asks the real verifier.
func (e *e2eWorld) lastVerdict() (bool, string) { return e.lastOK, e.lastWhat }

func (e *e2eWorld) verify(ev ucon.CommitEvent) {
	defer func() {
		if r := recover(); r != nil {
			e.lastOK, e.lastWhat = false, fmt.Sprintf("the real header verifier panicked: %v", r)
		}
	}()
	blk := e.srv.Assemble(e.w.d, ev)
	if blk == nil {
		e.lastOK, e.lastWhat = false, "Server.commit did not produce a block (PackVotes failed)"
		return
	}
	err := e.srv.S.VerifySideChainHeader(&e.yp.CaravelParams, e.seedSet.hdr, e.stake.st, e.cseedSet.hdr, e.cstake.st, blk, []*types.Block{e.parent})
	if err != nil {
		e.lastOK, e.lastWhat = false, "the real VerifySideChainHeader rejects the header assembled from the CommitEvent: "+err.Error()
		return
	}
	e.lastOK, e.lastWhat = true, ""
	e.commits[blk.Hash()] = blk
	e.chain.ByHash[blk.Hash()] = blk.Header()
}

// ---------------------------------------------------------------------------------------------------------------

// genE2E builds an end-to-end history.
func genE2E(r *vh.RNG, lag bool, blsWorld bool, hist bool) []string {
	n := r.Range(3, 7)
	cert := r.Chance(50)
	R := uint64(32768 * (1 + r.Intn(2)))
	if !cert {
		R = []uint64{32767, 40001, 9}[r.Intn(3)]
	}
	if hist {
		// history world: the four look-back heights must be four different heights (2F < R for a certificate round)
		n = r.Range(4, 7)
		cert = r.Chance(70)
		R = []uint64{65536, 98304}[r.Intn(2)]
		if !cert {
			R = []uint64{40001, 50001}[r.Intn(2)]
		}
	}
	stakes := make([]uint64, n)
	total := uint64(0)
	flags := make([]uint64, n)
	for k := range stakes {
		stakes[k] = uint64(r.Range(1, 9))
		if k >= 2 && r.Chance(8) {
			flags[k] = uint64(r.Range(2, 3)) // offline or absent (house members are covered by the scripted world: with a small house
			// stake total the sortition probability T/total exceeds 1 and gonum's binomial CDF panics)
		}
		if k == 0 && r.Chance(25) {
			flags[k] = 3
		}
		if flags[k] == 0 {
			total += stakes[k]
		}
	}
	// p = T/total: 1 gives weight = stake (exact quorum arithmetic on the stake distribution); smaller p gives binomial weights
	T := total
	if r.Chance(30) {
		T = total * uint64(r.Range(40, 95)) / 100
		if T == 0 {
			T = 1
		}
	}
	Tc := T
	tag := "E2E"
	if blsWorld {
		tag = "E2EB"
	}
	seedB := r.Intn(250)
	var hs []string
	if hist {
		// distinct stakes, so that every re-ordering changes the sorted validator list (the BLS voter index)
		vals := make([]uint64, n)
		for k := range vals {
			vals[k] = uint64(2 + k + r.Intn(2)*n)
		}
		perm := func() []uint64 {
			p := append([]uint64{}, vals...)
			for i := len(p) - 1; i > 0; i-- {
				j := r.Intn(i + 1)
				p[i], p[j] = p[j], p[i]
			}
			return p
		}
		copy(stakes, perm())
		mk := func(role string) string {
			st := perm()
			l := "HS " + role
			for k := range st {
				fl := uint64(0)
				if k >= 2 && r.Chance(12) {
					fl = uint64(r.Range(2, 3))
				}
				if k == 0 && r.Chance(15) {
					fl = 3
				}
				l += fmt.Sprintf(" %d", st[k]*4+fl)
			}
			return l
		}
		hs = []string{mk("seed"), mk("cstake"), mk("cseed"), mk("other")}
		mkHdr := func(T, Tc uint64) string {
			h := fmt.Sprintf("%s %d %d %d %d", tag, seedB, T, Tc, R)
			for k := range stakes {
				h += fmt.Sprintf(" %d", stakes[k]*4+flags[k])
			}
			return h
		}
		// thresholds = the chamber totals the real validator statistics report at the stake heights (p = 1: weight = stake)
		w0, err := newE2EWorld(mkHdr(1, 1), hs...)
		if err != nil {
			return []string{mkHdr(1, 1)}
		}
		T, Tc = w0.e2e.stake.total, w0.e2e.cstake.total
		if Tc == 0 {
			Tc = 1
		}
		if r.Chance(20) {
			T = T * uint64(r.Range(50, 95)) / 100
			Tc = Tc * uint64(r.Range(50, 95)) / 100
			if T == 0 {
				T = 1
			}
			if Tc == 0 {
				Tc = 1
			}
		}
	}
	// thresholds below 2 give a quorum of 0 (no vote needed at all): outside every shipped parameter set, and with BLS
	// an EMPTY vote set has no aggregated signature to verify; keep the quorums >= 1
	if T < 2 {
		T = 2
	}
	if Tc < 2 {
		Tc = 2
	}
	hdr := fmt.Sprintf("%s %d %d %d %d", tag, seedB, T, Tc, R)
	for k := range stakes {
		hdr += fmt.Sprintf(" %d", stakes[k]*4+flags[k])
	}
	out := append([]string{hdr}, hs...)
	w, err := newE2EWorld(hdr, hs...)
	if err != nil {
		return out
	}
	e := w.e2e
	main := uint64(1 + r.Intn(2))
	if r.Chance(85) {
		out = append(out, fmt.Sprintf("EM 1 %d %d", 10+main, main))
	}
	srvR, srvI := R, uint64(1)
	idx := uint64(1)
	nIdx := 1
	if r.Chance(30) {
		nIdx = 2
	}
	for c := 0; c < nIdx; c++ {
		steps := []uint64{2, 4}
		if cert {
			steps = append(steps, 5)
		}
		var block, votes []string
		for _, s := range steps {
			block = append(block, fmt.Sprintf("C %d %d %d %d", R, idx, s, b01(cert)))
		}
		kinds := []uint64{2, 3}
		if cert {
			kinds = append(kinds, 5)
		}
		if r.Chance(50) {
			kinds = append(kinds, 4)
		}
		srvI = idx
		if lag && c == nIdx-1 {
			srvI = idx + 1 // the Server already moved on; Voter and message handler still in idx
		}
		for _, vt := range kinds {
			for s := 1; s < n; s++ {
				if r.Chance(10) {
					continue
				}
				h, p := main, 10+main
				if vt == 4 && r.Chance(50) {
					h, p = 0, 0
				}
				tam := 0
				if r.Chance(6) || (lag && c == nIdx-1 && r.Chance(35)) {
					tam = r.Range(1, 2)
				}
				votes = append(votes, e.lineFor(vt, R, idx, h, p, uint64(s), 2, tam, srvR, srvI))
				if r.Chance(10) {
					votes = append(votes, e.lineFor(vt, R, idx, h, p, uint64(s), 2, 0, srvR, srvI))
				}
				if r.Chance(12) {
					o := []uint64{1, 2, 3, 7}[r.Intn(4)]
					votes = append(votes, e.lineFor(vt, R, idx, o, 10+o, uint64(s), 2, 0, srvR, srvI))
				}
			}
		}
		if blsWorld {
			// received votes whose BLS signature does not verify (the outer envelope, voter index and sortition are all fine)
			for x := range votes {
				if r.Chance(7) {
					votes[x] = withSig(votes[x], uint64(r.Range(2, 7)))
				}
			}
		}
		if r.Chance(40) {
			shuffle(r, votes)
		} else {
			for x := 0; x < len(votes)/5; x++ {
				a, b := r.Intn(len(votes)), r.Intn(len(votes))
				votes[a], votes[b] = votes[b], votes[a]
			}
		}
		out = append(out, fmt.Sprintf("S %d %d", srvR, srvI))
		pos := 0
		for x, cl := range block {
			out = append(out, cl)
			take := len(votes) / len(block)
			if x == len(block)-1 {
				take = len(votes) - pos
			}
			if r.Chance(30) && take > 0 {
				take = r.Intn(take + 1)
			}
			out = append(out, votes[pos:pos+take]...)
			pos += take
		}
		out = append(out, votes[pos:]...)
		// keep driving after a possible commit: counted precommitters / certificate voters equivocate, then a step change
		if r.Chance(60) {
			o := []uint64{1, 2, 3}[r.Intn(3)]
			for s := 1; s < n; s++ {
				if r.Chance(45) {
					vt := uint64(3)
					if cert && r.Chance(40) {
						vt = 5
					}
					out = append(out, e.lineFor(vt, R, idx, o, 10+o, uint64(s), 2, 0, srvR, srvI))
				}
			}
			out = append(out, fmt.Sprintf("C %d %d %d %d", R, idx, steps[len(steps)-1], b01(cert)))
		}
		// a stale precommit for the index just left
		if c+1 < nIdx {
			out = append(out, fmt.Sprintf("S %d %d", srvR, idx+1), fmt.Sprintf("C %d %d 0 %d", R, idx+1, b01(cert)),
				e.lineFor(3, R, idx, main, 10+main, uint64(r.Range(1, n-1)), 1, r.Intn(3), srvR, idx+1))
		}
		idx++
		if r.Chance(50) {
			main = 21
		}
	}
	out = append(out, "D")
	return out
}

// genE2EUpdate: the header-update leg. Block 1 collects some precommits in index 1 (no quorum), is committed in index 2,
// then (a) late precommits of index 2 arrive after the commit (votesUpdateEv, flushed at the next context change) and
// (b) stale precommits of index 1 arrive until that old wrapper passes the update quorum.
func genE2EUpdate(r *vh.RNG, blsWorld bool) []string {
	n := r.Range(4, 7)
	cert := r.Chance(30)
	R := uint64(32768)
	if !cert {
		R = []uint64{32767, 40001, 9}[r.Intn(3)]
	}
	total := uint64(0)
	tag := "E2E"
	if blsWorld {
		tag = "E2EB"
	}
	stakes := make([]uint64, n)
	for k := range stakes {
		stakes[k] = uint64(r.Range(2, 6))
		total += stakes[k]
	}
	hdr := fmt.Sprintf("%s %d %d %d %d", tag, r.Intn(250), total, total, R)
	for k := range stakes {
		hdr += fmt.Sprintf(" %d", stakes[k]*4)
	}
	out := []string{hdr}
	w, err := newE2EWorld(hdr)
	if err != nil {
		return out
	}
	e := w.e2e
	q := uint64(quorumOf(total, true))
	out = append(out, "EM 1 11 1", fmt.Sprintf("S %d 1", R), fmt.Sprintf("C %d 1 2 %d", R, b01(cert)), fmt.Sprintf("C %d 1 4 %d", R, b01(cert)))
	// index 1: a few precommits for block 1, kept below the quorum (the own vote counts too)
	acc := stakes[0]
	early := map[int]bool{}
	for s := 1; s < n; s++ {
		if acc+stakes[s] < q && r.Chance(70) {
			out = append(out, e.lineFor(3, R, 1, 1, 11, uint64(s), 2, 0, R, 1))
			acc += stakes[s]
			early[s] = true
		}
	}
	// index 2: everybody prevotes and precommits block 1 (and certifies in a certificate round)
	out = append(out, fmt.Sprintf("S %d 2", R), fmt.Sprintf("C %d 2 2 %d", R, b01(cert)))
	kinds := []uint64{2, 3}
	if cert {
		kinds = []uint64{2, 5, 3}
	}
	for _, vt := range kinds {
		for s := 1; s < n; s++ {
			out = append(out, e.lineFor(vt, R, 2, 1, 11, uint64(s), 2, 0, R, 2))
		}
	}
	// stale precommits of index 1 from the others
	order := []int{}
	for s := 1; s < n; s++ {
		if !early[s] {
			order = append(order, s)
		}
	}
	for _, s := range order {
		out = append(out, e.lineFor(3, R, 1, 1, 11, uint64(s), 1, 0, R, 2))
	}
	// next round: the pending update of index 2 is flushed; stale votes now have status oldRound
	out = append(out, fmt.Sprintf("S %d 1", R+1), fmt.Sprintf("C %d 1 0 0", R+1))
	if r.Chance(50) && len(order) > 0 {
		out = append(out, e.lineFor(3, R, 1, 1, 11, uint64(order[0]), 0, 0, R+1, 1))
	}
	out = append(out, "D")
	return out
}

// withSig rewrites the signature field of a V line.
func withSig(line string, v uint64) string {
	f := strings.Fields(line)
	if len(f) == 16 && f[10] == "1" {
		f[10] = fmt.Sprint(v)
	}
	return strings.Join(f, " ")
}

func runE2E(c *vh.Ctx, drv *vh.Driver, do func(name string, lines []string, family string) scriptResult) error {
	n := c.N(70, 900)
	for k := 0; k < n; k++ {
		lines := genE2E(c.R.Fork(), false, false, false)
		rr := do("e2e", lines, "e2e-real-credentials")
		if k == 0 {
			c.Res.Sample(map[string]interface{}{"e2e_script": lines, "go_responses": strings.Split(strings.TrimSpace(rr.canon), "\n")})
		}
		c.Res.DistN("e2e-commits-verified-by-real-verifier", rr.commits)
	}
	// the same on the BLS path (EnableBls = true as in every shipped version): VoteBLSMgr.SignVote / getAddrFromVote,
	// BlsVerifier.PackVotes / aggregateVotes, the BLS branch of verifyVotes with VerifyAggregatedOne
	for k := 0; k < c.N(60, 700); k++ {
		lines := genE2E(c.R.Fork(), false, true, false)
		rr := do("e2e-bls", lines, "e2e-bls")
		if k == 0 {
			c.Res.Sample(map[string]interface{}{"e2e_bls_script": lines, "go_responses": strings.Split(strings.TrimSpace(rr.canon), "\n")})
		}
		c.Res.DistN("e2e-bls-commits-verified-by-real-verifier", rr.commits)
	}
	// the Server's context runs ahead of the Voter's in the last index (verifySortition's leniency window, known finding F-C03b)
	for k := 0; k < c.N(30, 300); k++ {
		lines := genE2E(c.R.Fork(), true, k%2 == 1, false)
		rr := do("e2e-lag", lines, "e2e-server-ahead")
		c.Res.DistN("e2e-commits-verified-by-real-verifier", rr.commits)
	}
	// history worlds: the validator set (stake order, membership, online flags) and the seed differ between the four
	// look-back heights (round - StakeLookBack / - SeedLookBack / - 2F / - F); two thirds on the BLS path
	for k := 0; k < c.N(60, 700); k++ {
		lines := genE2E(c.R.Fork(), false, k%3 != 0, true)
		rr := do("e2e-hist", lines, "e2e-history-world")
		c.Res.DistN("e2e-history-commits-verified-by-real-verifier", rr.commits)
	}
	// header updates: Server.updateBlockHeader merges later-arriving precommits; the merged header must still verify
	for k := 0; k < c.N(30, 300); k++ {
		lines := genE2EUpdate(c.R.Fork(), k%2 == 1)
		rr := do("e2e-upd", lines, "e2e-header-update")
		c.Res.DistN("e2e-headers-merged-by-real-updateBlockHeader", rr.merged)
	}
	return nil
}
