package main

import (
	"strings"

	"verifharness/internal/vh"
)

// F-C03b witness, end to end on the real code: stakes 1 (the Voter), 5, 5, 5; T = 16 gives p = 1, weight = stake, quorum 10.
// The Server has already moved to index 2 (`S 9 2`), the Voter is still in index 1. Validator 2 claims weight 6 instead
// of 5: VrfVerifySortition fails, Server.verifySortition forgives it ("older than my context"), the Voter counts 5 + 6 = 11
// >= 10 in its CURRENT context and commits; the header verifier recounts 5 and rejects the header.
var probeLenient = []string{
	"E2E 7 16 16 9 4 20 20 20",
	"S 9 2",
	"C 9 1 4 0",
	"V 3 9 1 1 11 1 5 2 0 1 1 1 1 16 1",
	"V 3 9 1 1 11 2 6 2 0 1 1 1 1 16 2",
	"D",
}

// probes replays the witnesses of the known findings of C03 on the real code.
func probes(c *vh.Ctx, drv *vh.Driver) {
	r := runScript(probeLenient, drv)
	rep := false
	what := "F-C03b witness no longer reproduces"
	if r.mismatch != "" {
		what = "F-C03b witness: model and real code disagree: " + r.mismatch
		c.Res.Fail("correspondence", "", what, vh.WriteReplay(c.ReplayDir, "C03", "probe-lenient", c.Seed, []string{"kind correspondence"}, probeLenient))
	}
	for _, v := range r.viol {
		if v.matcher == matcherLenient && strings.HasPrefix(v.what, "commit_verifies") {
			rep = true
			what = v.what
		}
	}
	c.Res.Probes = append(c.Res.Probes, vh.Probe{ID: "F-C03b", Reproduced: rep, What: what})
}
