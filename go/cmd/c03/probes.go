package main

import (
	"verifharness/internal/vh"
)

// probes replays the witnesses of the known findings of C03 on the real code.
func probes(c *vh.Ctx, drv *vh.Driver) {
}
