package main

// Seeded script generators for the scripted world.

import (
	"fmt"

	"github.com/youchainhq/go-youchain/consensus/ucon"
	"verifharness/internal/vh"
)

// quorumOf finds the least count the REAL OverThreshold accepts for threshold T (binary search on the real function).
func quorumOf(T uint64, isPos bool) uint32 {
	if ucon.VerifC03OverThreshold(0, T, isPos) {
		return 0
	}
	lo, hi := uint32(0), ^uint32(0) // lo fails, hi passes (or nothing passes)
	if !ucon.VerifC03OverThreshold(hi, T, isPos) {
		return hi
	}
	for hi-lo > 1 {
		mid := lo + (hi-lo)/2
		if ucon.VerifC03OverThreshold(mid, T, isPos) {
			hi = mid
		} else {
			lo = mid
		}
	}
	return hi
}

type scriptMeta struct {
	family  string
	cert    bool
	T, Tc   uint64
	uniform bool
}

func vline(vt, r, i, h, p, sender, votes, status uint64, kind, T, cred uint64) string {
	return fmt.Sprintf("V %d %d %d %d %d %d %d %d 0 1 1 1 %d %d %d", vt, r, i, h, p, sender, votes, status, kind, T, cred)
}

// partition splits total into n positive-ish parts (parts may be 0 when total < n).
func partition(r *vh.RNG, total uint64, n int) []uint64 {
	out := make([]uint64, n)
	rem := total
	for i := 0; i < n-1; i++ {
		if rem == 0 {
			break
		}
		x := uint64(r.Intn(int(rem%1000000)+1)) % (rem + 1)
		if r.Chance(50) {
			x = rem / uint64(n-i)
		}
		out[i] = x
		rem -= x
	}
	out[n-1] = rem
	return out
}

var thresholds = []uint64{10, 20, 7, 200, 1000, 3400, 13, 100, 3, 2, 1, 0, 6600, 65536}

// genScript builds one scripted history. Layout: `U T Tc uniform`, environment lines, then deliveries.
func genScript(r *vh.RNG, malformed bool) ([]string, scriptMeta) {
	T := thresholds[r.Intn(len(thresholds))]
	Tc := T
	if r.Chance(40) {
		Tc = thresholds[r.Intn(len(thresholds))]
	}
	if malformed && r.Chance(20) {
		T = r.U64() >> uint(r.Intn(64))
	}
	q := uint64(quorumOf(T, true))
	qc := uint64(quorumOf(Tc, false))
	cert := r.Chance(45)
	R := uint64(32768 * (1 + r.Intn(3)))
	if !cert {
		R = []uint64{32767, 5, 40000, 1}[r.Intn(4)]
	}
	certFlag := cert
	if malformed && r.Chance(10) {
		certFlag = !certFlag
	}
	meta := scriptMeta{family: "random", cert: certFlag, T: T, Tc: Tc, uniform: true}
	n := r.Range(2, 7)
	// weights: a subset of senders sums to q + delta (delta in -1,0,+1,+few) for the positive kinds
	target := q
	switch r.Intn(6) {
	case 0:
		if target > 0 {
			target--
		}
	case 1:
		target++
	case 2:
		target += uint64(r.Intn(5))
	}
	k := r.Range(1, n)
	ws := append(partition(r, target, k), make([]uint64, n-k)...)
	for i := k; i < n; i++ {
		ws[i] = uint64(r.Intn(int(q%50 + 3)))
	}
	// certificate weights: sometimes the same, sometimes a partition around qc
	wc := append([]uint64{}, ws...)
	if r.Chance(60) {
		tc := qc
		switch r.Intn(4) {
		case 0:
			if tc > 0 {
				tc--
			}
		case 1:
			tc += uint64(r.Intn(3))
		}
		kc := r.Range(1, n)
		wc = append(partition(r, tc, kc), make([]uint64, n-kc)...)
		for i := kc; i < n; i++ {
			wc[i] = uint64(r.Intn(int(qc%50 + 3)))
		}
	}
	if malformed && r.Chance(15) {
		ws[r.Intn(n)] = 4294967295 - uint64(r.Intn(3)) // uint32 wrap-around of the counter
	}
	var out []string
	out = append(out, fmt.Sprintf("U %d %d 1", T, Tc))
	// own sortition
	for _, vt := range []uint64{2, 3, 4, 5} {
		if r.Chance(65) {
			kind := uint64(1)
			if r.Chance(8) {
				kind = uint64(r.Intn(3))
			}
			thr := T
			if vt == 5 {
				thr = Tc
			}
			w := uint64(r.Intn(4))
			if r.Chance(20) && q > 0 {
				w = q - uint64(r.Intn(2))
			}
			out = append(out, fmt.Sprintf("ES %d 1 %d %d %d", vt, w, kind, thr))
		}
	}
	B := []uint64{1, 2, 3}
	P := []uint64{11, 12, 13}
	if r.Chance(80) {
		x := r.Intn(2)
		out = append(out, fmt.Sprintf("EM 1 %d %d", P[x], B[x]))
	}
	if r.Chance(10) {
		out = append(out, fmt.Sprintf("EB %d 0", B[r.Intn(3)]))
	}
	if r.Chance(5) {
		out = append(out, "EC 1")
	}
	// the deliveries of one (round, index): contexts in step order, votes in phases, then mixed
	var evs []string
	idx := uint64(1)
	nIdx := 1
	if r.Chance(35) {
		nIdx = r.Range(2, 3)
	}
	if malformed && r.Chance(10) {
		nIdx = r.Range(4, 6) // rotate the 4-slot ring
	}
	orderly := r.Chance(55)
	for c := 0; c < nIdx; c++ {
		var block []string
		steps := []uint64{0, 2, 4}
		if certFlag {
			steps = append(steps, 5)
		}
		if r.Chance(15) {
			steps = steps[1:]
		}
		for _, s := range steps {
			block = append(block, fmt.Sprintf("C %d %d %d %d", R, idx, s, b01(certFlag)))
		}
		main := r.Intn(2)
		kinds := []uint64{2, 3}
		if certFlag {
			kinds = append(kinds, 5)
		}
		if r.Chance(70) {
			kinds = append(kinds, 4)
		}
		var votes []string
		for _, vt := range kinds {
			for s := 1; s <= n; s++ {
				if r.Chance(12) {
					continue
				}
				h, p := B[main], P[main]
				if vt == 4 && r.Chance(50) {
					h, p = 0, 0
				}
				if r.Chance(10) {
					o := r.Intn(3)
					h, p = B[o], P[o]
				}
				wgt := ws[s-1]
				thr := T
				if vt == 5 {
					wgt, thr = wc[s-1], Tc
				}
				votes = append(votes, vline(vt, R, idx, h, p, uint64(s), wgt, 2, 1, thr, 1))
				if r.Chance(12) { // duplicate
					votes = append(votes, vline(vt, R, idx, h, p, uint64(s), wgt, 2, 1, thr, 1))
				}
				if r.Chance(14) { // equivocation
					o := (main + 1 + r.Intn(2)) % 3
					votes = append(votes, vline(vt, R, idx, B[o], P[o], uint64(s), wgt, 2, 1, thr, 1))
				}
			}
		}
		if !orderly {
			shuffle(r, votes)
		} else {
			// a few local swaps keep the phases mostly ordered
			for x := 0; x < len(votes)/4; x++ {
				a, b := r.Intn(len(votes)), r.Intn(len(votes))
				votes[a], votes[b] = votes[b], votes[a]
			}
		}
		// interleave contexts and votes: contexts keep their order, votes are spread around them
		pos := make([]int, len(block))
		for x := range pos {
			if orderly {
				pos[x] = len(votes) * x / len(block)
				if x > 0 && r.Chance(50) {
					pos[x] += r.Intn(len(votes)/len(block) + 1)
				}
			} else {
				pos[x] = r.Intn(len(votes) + 1)
			}
		}
		sortInts(pos)
		pos[0] = 0
		vi := 0
		for x, cl := range block {
			for vi < pos[x] && vi < len(votes) {
				evs = append(evs, votes[vi])
				vi++
			}
			evs = append(evs, cl)
		}
		evs = append(evs, votes[vi:]...)
		idx++
		if r.Chance(10) && idx > 1 {
			idx-- // same index again
		}
	}
	// sprinkle stale / future / invalid / wrong-kind / malformed deliveries
	extra := r.Intn(4)
	if malformed {
		extra += r.Range(2, 8)
	}
	for x := 0; x < extra; x++ {
		s := uint64(r.Range(0, n))
		vt := []uint64{2, 3, 3, 4, 5}[r.Intn(5)]
		i := uint64(r.Range(1, nIdx+1))
		h := B[r.Intn(3)]
		p := h + 10
		wgt := uint64(r.Intn(int(q%40 + 4)))
		if s >= 1 {
			wgt = ws[s-1]
		}
		xT := T
		if vt == 5 {
			xT = Tc // certificate votes report the certificate threshold
		}
		line := ""
		switch r.Intn(9) {
		case 0: // stale precommit counted in its old wrapper
			line = vline(3, R, i, h, p, s, wgt, uint64(r.Intn(2)), 1, T, 1)
		case 1:
			line = vline(vt, R, i, h, p, s, wgt, 3, 1, xT, 1)
		case 2:
			line = vline(vt, R, i, h, p, s, wgt, 4, 1, xT, 1)
		case 3: // older round
			line = vline(vt, R-1, i, h, p, s, wgt, uint64(r.Intn(2)), 1, xT, uint64(r.Range(1, 2)))
		case 4: // wrong message kind
			line = vline(uint64(r.Intn(2)), R, i, h, p, s, wgt, 2, 1, T, 1)
		case 5: // house / unknown validator kind
			line = vline(vt, R, i, h, p, s, wgt, 2, uint64(2*r.Intn(2)), xT, 1)
		case 6: // credential rejected
			line = vline(vt, R, i, h, p, s, wgt, 2, 1, xT, 0)
		case 7: // status same but another context
			line = vline(vt, R+uint64(r.Intn(2)), i+uint64(r.Intn(3)), h, p, s, wgt, 2, 1, xT, 1)
		case 8: // lenient credential
			line = vline(vt, R, i, h, p, s, wgt, uint64(r.Intn(3)), 1, xT, 2)
			if r.Chance(50) {
				meta.uniform = meta.uniform && true
			}
		}
		if malformed {
			switch r.Intn(8) {
			case 0:
				line = fmt.Sprintf("V %d %d %d %d %d %d %d 2 1 1 1 1 1 %d 1", vt, R, i, h, p, s, wgt, xT) // nil vote
			case 1:
				line = fmt.Sprintf("V %d %d %d %d %d %d %d 2 0 0 1 1 1 %d 1", vt, R, i, h, p, s, wgt, xT) // bad signature
			case 2:
				line = fmt.Sprintf("V %d %d %d %d %d %d %d 2 0 1 0 1 1 %d 1", vt, R, i, h, p, s, wgt, xT) // claimed by another address
			case 3:
				line = fmt.Sprintf("V %d %d %d %d %d %d %d 2 0 1 1 0 1 %d 1", vt, R, i, h, p, s, wgt, xT) // stake lookup fails
			case 4: // another threshold for this sender
				line = vline(vt, R, i, h, p, s, wgt, 2, 1, thresholds[r.Intn(len(thresholds))], 1)
				meta.uniform = false
			case 5:
				if r.Chance(20) {
					line = fmt.Sprintf("V %d %d %d %d %d %d %d %d 1 1 1 1 1 %d 1", vt, R, i, h, p, s, wgt, r.Intn(2), xT) // nil vote, not msgSame: panics
				}
			}
		}
		at := r.Intn(len(evs) + 1)
		if malformed && r.Chance(5) {
			at = 0 // before the first context
		}
		evs = append(evs[:at], append([]string{line}, evs[at:]...)...)
	}
	// environment changes in flight
	if r.Chance(15) {
		at := r.Intn(len(evs) + 1)
		evt := uint64(2 + r.Intn(4))
		ethr := T
		if evt == 5 {
			ethr = Tc // the own certificate sortition reports the certificate threshold
		}
		l := []string{fmt.Sprintf("EB %d %d", B[r.Intn(3)], r.Intn(2)), fmt.Sprintf("ES %d 0 0 0 0", 2+r.Intn(4)), fmt.Sprintf("EC %d", r.Intn(2)),
			fmt.Sprintf("ES %d 1 %d 1 %d", evt, r.Intn(3), ethr)}[r.Intn(4)]
		evs = append(evs[:at], append([]string{l}, evs[at:]...)...)
	}
	// the inserter refuses a block (Server.commit -> removeMarkedBlock)
	if r.Chance(25) {
		for x := 0; x < r.Range(1, 2); x++ {
			at := r.Intn(len(evs) + 1)
			evs = append(evs[:at], append([]string{fmt.Sprintf("X %d", B[r.Intn(3)])}, evs[at:]...)...)
		}
	}
	// dumps
	for x := 0; x < len(evs)/12; x++ {
		at := r.Intn(len(evs) + 1)
		evs = append(evs[:at], append([]string{"D"}, evs[at:]...)...)
	}
	out = append(out, evs...)
	out = append(out, "D")
	if !meta.uniform {
		out[0] = fmt.Sprintf("U %d %d 0", T, Tc)
	}
	return out, meta
}

func shuffle(r *vh.RNG, l []string) {
	for i := len(l) - 1; i > 0; i-- {
		j := r.Intn(i + 1)
		l[i], l[j] = l[j], l[i]
	}
}

func sortInts(a []int) {
	for i := 1; i < len(a); i++ {
		for j := i; j > 0 && a[j] < a[j-1]; j-- {
			a[j], a[j-1] = a[j-1], a[j]
		}
	}
}

// certLatchScript: the F-C03a shape with random padding: in a certificate context a precommit quorum for B is reached,
// a counted precommitter equivocates, then the certificate quorum arrives (or the symmetric order).
func certLatchScript(r *vh.RNG) ([]string, scriptMeta) {
	T := []uint64{10, 20, 200, 1000}[r.Intn(4)]
	q := uint64(quorumOf(T, true))
	qc := uint64(quorumOf(T, false))
	R := uint64(32768 * (1 + r.Intn(3)))
	a := q / 2
	b := q - a
	if b < qc {
		b = qc
	}
	out := []string{fmt.Sprintf("U %d %d 1", T, T)}
	if r.Chance(50) {
		out = append(out, fmt.Sprintf("ES 5 1 %d 1 %d", r.Intn(2), T))
	}
	out = append(out, fmt.Sprintf("C %d 1 %d 1", R, []int{2, 4, 5}[r.Intn(3)]))
	sym := r.Chance(30)
	if !sym {
		out = append(out,
			vline(3, R, 1, 1, 11, 1, a, 2, 1, T, 1),
			vline(3, R, 1, 1, 11, 2, b, 2, 1, T, 1),
			vline(3, R, 1, 2, 12, 1, a, 2, 1, T, 1), // sender 1 equivocates: weight a leaves hash 1
			vline(5, R, 1, 1, 11, 2, b, 2, 1, T, 1)) // certificate quorum -> commit with the remaining precommits
	} else {
		c1 := qc / 2
		c2 := qc - c1
		out = append(out[:1],
			fmt.Sprintf("ES 5 1 0 1 %d", T),
			"EB 1 0", // the block is not in the cache yet: the first commit attempt returns early
			fmt.Sprintf("C %d 1 %d 1", R, []int{2, 4, 5}[r.Intn(3)]),
			vline(5, R, 1, 1, 11, 1, c1, 2, 1, T, 1),
			vline(5, R, 1, 1, 11, 2, c2, 2, 1, T, 1), // certificate quorum latched
			vline(3, R, 1, 1, 11, 3, q, 2, 1, T, 1),  // precommit quorum: own certificate vote, certificated = true
			vline(5, R, 1, 2, 12, 1, c1, 2, 1, T, 1), // certificate voter 1 equivocates
			"EB 1 1",                                 // the block arrives
			vline(3, R, 1, 1, 11, 4, 1, 2, 1, T, 1))  // another precommit: commit through the Precommit branch
	}
	out = append(out, "D")
	return out, scriptMeta{family: "cert-latch", cert: true, T: T, Tc: T, uniform: true}
}

// permScripts enumerates every order of a small multiset of deliveries.
func permScripts(base []string, prefix []string) [][]string {
	var res [][]string
	idx := make([]int, len(base))
	for i := range idx {
		idx[i] = i
	}
	var rec func(k int)
	rec = func(k int) {
		if k == len(idx) {
			s := append([]string{}, prefix...)
			for _, i := range idx {
				s = append(s, base[i])
			}
			s = append(s, "D")
			res = append(res, s)
			return
		}
		for i := k; i < len(idx); i++ {
			idx[k], idx[i] = idx[i], idx[k]
			rec(k + 1)
			idx[k], idx[i] = idx[i], idx[k]
		}
	}
	rec(0)
	return res
}

// permBases: event multisets whose every interleaving is run (quorum reached exactly by two senders; one of them equivocates).
func permBases(tier string) [][2][]string {
	T := uint64(10) // quorum 6 / 5
	nonCert := [2][]string{
		{"U 10 10 1", "ES 2 1 1 1 10", "ES 3 1 1 1 10", "ES 4 1 1 1 10", "EM 1 11 1"},
		{"C 7 1 2 0", "C 7 1 4 0",
			vline(2, 7, 1, 1, 11, 1, 3, 2, 1, T, 1), vline(2, 7, 1, 1, 11, 2, 2, 2, 1, T, 1),
			vline(3, 7, 1, 1, 11, 1, 3, 2, 1, T, 1), vline(3, 7, 1, 1, 11, 2, 2, 2, 1, T, 1)},
	}
	equiv := [2][]string{
		{"U 10 10 1", "ES 3 1 1 1 10", "EM 1 11 1"},
		{"C 7 1 2 0",
			vline(2, 7, 1, 1, 11, 1, 3, 2, 1, T, 1), vline(2, 7, 1, 1, 11, 2, 3, 2, 1, T, 1), vline(2, 7, 1, 2, 12, 1, 3, 2, 1, T, 1),
			vline(3, 7, 1, 1, 11, 1, 3, 2, 1, T, 1), vline(3, 7, 1, 1, 11, 2, 2, 2, 1, T, 1)},
	}
	certB := [2][]string{
		{"U 10 10 1", "ES 5 1 0 1 10"},
		{"C 32768 1 4 1", "C 32768 1 5 1",
			vline(3, 32768, 1, 1, 11, 1, 3, 2, 1, T, 1), vline(3, 32768, 1, 1, 11, 2, 3, 2, 1, T, 1),
			vline(5, 32768, 1, 1, 11, 1, 3, 2, 1, T, 1), vline(5, 32768, 1, 1, 11, 2, 2, 2, 1, T, 1)},
	}
	certEq := [2][]string{
		{"U 10 10 1"},
		{"C 32768 1 4 1",
			vline(3, 32768, 1, 1, 11, 1, 3, 2, 1, T, 1), vline(3, 32768, 1, 1, 11, 2, 3, 2, 1, T, 1), vline(3, 32768, 1, 2, 12, 1, 3, 2, 1, T, 1),
			vline(5, 32768, 1, 1, 11, 2, 5, 2, 1, T, 1), vline(5, 32768, 1, 1, 11, 3, 1, 2, 1, T, 1)},
	}
	idxChange := [2][]string{
		{"U 10 10 1", "ES 2 1 1 1 10", "ES 3 1 1 1 10", "ES 4 1 6 1 10", "EM 1 11 1"},
		{"C 7 1 2 0", "C 7 1 4 0", "C 7 2 2 0",
			vline(4, 7, 1, 0, 0, 1, 6, 2, 1, T, 1), vline(3, 7, 1, 1, 11, 1, 6, 1, 1, T, 1), vline(2, 7, 2, 1, 11, 2, 5, 2, 1, T, 1)},
	}
	out := [][2][]string{nonCert, certEq}
	if tier == "thorough" {
		out = append(out, equiv, certB, idxChange)
	}
	return out
}
