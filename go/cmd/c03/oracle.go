package main

// Implementation-level oracle: the property's statement evaluated on what the REAL Voter did (events + counting
// state read through the hook), using only the harness' own knowledge of what it delivered.  It does not look at
// the Lean model.
//
//	precommit_justified   an own precommit for B in (r,i) appears only when the real prevote count of B in the wrapper
//	                      of (r,i) passes the real OverThreshold for a threshold the call could have used, the count is
//	                      the uint32 sum of the members' weights, and every member is a sender whose prevote for exactly
//	                      B in (r,i) was delivered with good signature, matching address, stake record and accepted
//	                      credential (or is the own vote)
//	double_voter_weightless  a sender that had two counted-stage votes for different hashes in one (context, validator kind,
//	                      vote kind != next) is in no votesInfo of that VoteSta; a DoubleVoted sender is in none either
//	commit_verifies       scripted world: the packed precommits (and certificate votes in a certificate context) whose
//	                      credentials are strictly valid still pass the real OverThreshold for the world's thresholds
//	                      (the count the header verifier performs); e2e world: the REAL VerifySideChainHeader accepts the
//	                      header the REAL Server.commit assembles from the CommitEvent
//	aliasing              votesMgr is the wrapper of the current context

import (
	"fmt"
	"strings"

	"github.com/youchainhq/go-youchain/consensus/ucon"
	"github.com/youchainhq/go-youchain/params"
)

type ledKey struct {
	r, i    uint64
	chamber bool
	vt      uint64
	sender  uint64
}

type ledRec struct {
	h, w     uint64
	cred     uint64
	counting bool // delivered with status same while (r,i) was the Voter's context
	reached  bool // reached the counting stage (status same in the current context, or a stale precommit whose wrapper exists)
}

// stored returns the record whose vote the VoteSta keeps for this sender: the first one that reached the counting stage.
func stored(recs []ledRec) *ledRec {
	for k := range recs {
		if recs[k].reached {
			return &recs[k]
		}
	}
	return nil
}

type member struct{ vt, addr, w uint64 }

type violation struct {
	what    string
	matcher string
}

type ledger struct {
	recs       map[ledKey][]ledRec
	T, Tc      uint64
	uniform    bool
	viol       []violation
	nCommit    int
	nPrecommit int
	nDouble    int
	nEvidence  int
	nEquivCert bool // an equivocation (different-hash precommit/cert vote from a counted sender) was delivered in a certificate context
	ring       map[[2]uint64]bool
	commits    []commitObs
}

type commitObs struct {
	r, i, h  uint64
	cert     bool
	accepted bool
	detail   string
}

func (l *ledger) add(k ledKey, r ledRec) {
	if l.recs == nil {
		l.recs = map[ledKey][]ledRec{}
	}
	l.recs[k] = append(l.recs[k], r)
}

func (l *ledger) fail(what, matcher string) {
	if len(l.viol) < 20 {
		l.viol = append(l.viol, violation{what, matcher})
	}
}

// syncRing forgets the ledger of contexts whose wrapper left the ring (a later wrapper for the same context starts empty).
func (l *ledger) syncRing(w *world) {
	if w.crashed {
		return
	}
	now := map[[2]uint64]bool{}
	for _, c := range w.d.State().Wrappers {
		r, i := ucon.GetInfoFromHash(c)
		now[[2]uint64{r, uint64(i)}] = true
	}
	for c := range l.ring {
		if !now[c] {
			for k := range l.recs {
				if k.r == c[0] && k.i == c[1] {
					delete(l.recs, k)
				}
			}
		}
	}
	l.ring = now
}

func parseEntries(s string) map[uint64]uint64 {
	out := map[uint64]uint64{}
	s = strings.Trim(s, "[]")
	if s == "" {
		return out
	}
	for _, p := range strings.Split(s, ",") {
		var a, v uint64
		fmt.Sscanf(p, "%d:%d", &a, &v)
		out[a] = v
	}
	return out
}

func (l *ledger) ownVotes(w *world, evs []string) {
	for _, e := range evs {
		var vt, r, i, h, p, votes uint64
		if n, _ := fmt.Sscanf(e, "signed %d %d %d %d %d %d", &vt, &r, &i, &h, &p, &votes); n == 6 {
			s := w.sel[vt]
			ch := true
			if s != nil {
				ch = s.kind == 1
				if s.kind != 1 && s.kind != 2 {
					continue
				}
			}
			// the own vote goes through VoteSta.newVote only (never through addrVoteInfo): it is not part of the
			// double-vote bookkeeping, so it is not a "counting-stage" record for double_voter_weightless
			l.add(ledKey{r, i, ch, vt, 0}, ledRec{h: h, w: votes, cred: 1, counting: false, reached: true})
		}
	}
}

func (l *ledger) afterContext(w *world, a []uint64, st ucon.VerifC03Step, evs []string) {
	l.syncRing(w)
	l.ownVotes(w, evs)
	var ts []uint64
	if s := w.sel[2]; s != nil {
		ts = append(ts, s.T)
	}
	l.check(w, evs, ts, nil)
}

func (l *ledger) afterVote(w *world, a []uint64, st ucon.VerifC03Step, evs []string) {
	// a = vt r i h p sender votes status nil sig claim stake kind T cred
	eligible := a[8] == 0 && a[9] == 1 && a[10] != 0 && a[11] != 0 && a[14] != 0 && (a[12] == 1 || a[12] == 2) && a[0] >= 2 && a[0] <= 5
	if w.e2e != nil && !w.e2e.inSet(a[5], a[0]) {
		eligible = false
	}
	if eligible && !w.crashed && retClass(st) == "ok" {
		s := w.d.State()
		cur := s.Round != nil && s.Round.Uint64() == a[1] && uint64(s.RoundIndex) == a[2]
		k := ledKey{a[1], a[2], a[12] == 1, a[0], a[5]}
		prev := l.recs[k]
		reached := a[7] == 2 && cur
		if (a[7] == 0 || a[7] == 1) && a[0] == 3 && findWrapper(w.d.C03Dump(), a[1], a[2]) != nil {
			reached = true
		}
		l.add(k, ledRec{h: a[3], w: a[6], cred: a[14], counting: a[7] == 2 && cur, reached: reached})
		if s.ShouldCert && (a[0] == 3 || a[0] == 5) && a[7] == 2 && cur {
			for _, p := range prev {
				if p.h != a[3] && p.counting {
					l.nEquivCert = true
				}
			}
		}
	}
	// staking evidence (BLS world, version >= V5) may only be posted for a real equivocation: the sender already has a
	// stored vote for a different hash in this (context, kind, vote kind != next-index)
	for _, e := range evs {
		if strings.HasPrefix(e, "evidence ") {
			l.nEvidence++
			k := ledKey{a[1], a[2], a[12] == 1, a[0], a[5]}
			ok := false
			if recs := l.recs[k]; eligible && a[0] != 4 && len(recs) > 0 {
				for _, rec := range recs[:len(recs)-1] {
					if rec.reached && rec.h != a[3] {
						ok = true
					}
				}
			}
			if !ok {
				l.fail(fmt.Sprintf("evidence_only_for_equivocation: double-vote evidence posted for sender %d in (%d,%d) vote kind %d although it has no stored vote for another hash", a[5], a[1], a[2], a[0]), "")
			}
		}
	}
	l.ownVotes(w, evs)
	ts := []uint64{a[13]}
	if s := w.sel[2]; s != nil {
		ts = append(ts, s.T)
	}
	l.check(w, evs, ts, a)
}

func findWrapper(dd ucon.VerifC03Dump, r, i uint64) *ucon.VerifC03Wrapper {
	for k := range dd.Wrappers {
		if dd.Wrappers[k].Round == r && uint64(dd.Wrappers[k].RoundIndex) == i {
			return &dd.Wrappers[k]
		}
	}
	return nil
}

func (l *ledger) check(w *world, evs []string, thresholds []uint64, msg []uint64) {
	if w.crashed {
		return
	}
	if s := w.aliasing(); s != "" {
		l.fail("aliasing: "+s, "")
	}
	if s := w.existOver(); s != "" {
		l.fail("start_vote_question: "+s, "")
	}
	dd := w.d.C03Dump()
	// ---- double_voter_weightless -------------------------------------------------------------------------------
	for _, ww := range dd.Wrappers {
		for kind, byVt := range ww.Sta {
			for vt, sta := range byVt {
				member := map[uint64]bool{}
				for _, m := range sta.Info {
					for a := range m {
						member[addrID(a)] = true
					}
				}
				for a, st := range sta.Addrs {
					if st.Double && member[addrID(a)] {
						l.fail(fmt.Sprintf("double_voter_weightless: sender %d is marked DoubleVoted in (%d,%d) kind %d vote %d but still holds weight", addrID(a), ww.Round, ww.RoundIndex, kind, vt), "")
					}
				}
				if vt == ucon.NextIndex {
					continue
				}
				for k, recs := range l.recs {
					if k.r != ww.Round || k.i != uint64(ww.RoundIndex) || k.chamber != (kind == params.KindChamber) || k.vt != uint64(vt) {
						continue
					}
					hs := map[uint64]bool{}
					for _, r := range recs {
						if r.counting {
							hs[r.h] = true
						}
					}
					if len(hs) >= 2 {
						l.nDouble++
						if member[k.sender] {
							l.fail(fmt.Sprintf("double_voter_weightless: sender %d voted for %d different hashes in (%d,%d) kind %d vote %d and still holds weight", k.sender, len(hs), ww.Round, ww.RoundIndex, kind, vt), "")
						}
					}
				}
			}
		}
	}
	for _, e := range evs {
		// ---- precommit_justified -------------------------------------------------------------------------------
		var vt, r, i, h, p, votes uint64
		if n, _ := fmt.Sscanf(e, "signed %d %d %d %d %d %d", &vt, &r, &i, &h, &p, &votes); n == 6 && vt == 3 {
			l.nPrecommit++
			ww := findWrapper(dd, r, i)
			if ww == nil {
				l.fail(fmt.Sprintf("precommit_justified: precommit for %d in (%d,%d) but no wrapper for that context", h, r, i), "")
				continue
			}
			sta := ww.Sta[params.KindChamber][ucon.Prevote]
			hh := w.hashOf(h)
			count := sta.Counts[hh]
			okT := false
			for _, t := range thresholds {
				if ucon.VerifC03OverThreshold(count, t, true) {
					okT = true
				}
			}
			if !okT {
				l.fail(fmt.Sprintf("precommit_justified: precommit for %d in (%d,%d) with prevote count %d below the quorum of every threshold in play %v", h, r, i, count, thresholds), "")
			}
			sum := uint32(0)
			for a, wgt := range sta.Info[hh] {
				sum += wgt
				id := addrID(a)
				found, lenient := false, false
				if rec := stored(l.recs[ledKey{r, i, true, 2, id}]); rec != nil && rec.h == h && rec.w == uint64(wgt) {
					found, lenient = rec.cred == 1, rec.cred == 2
				}
				if !found && lenient {
					l.fail(fmt.Sprintf("precommit_justified: counted prevoter %d (weight %d) for %d in (%d,%d) has no verified credential: its vote was accepted only through verifySortition's old-round leniency", id, wgt, h, r, i), matcherLenient)
				} else if !found {
					l.fail(fmt.Sprintf("precommit_justified: counted prevoter %d (weight %d) for %d in (%d,%d) never delivered such a vote with accepted credentials", id, wgt, h, r, i), "")
				}
			}
			if sum != count {
				l.fail(fmt.Sprintf("precommit_justified: prevote count %d for %d is not the sum %d of its members", count, h, sum), "")
			}
		}
		// ---- commit_verifies ----------------------------------------------------------------------------------
		if strings.HasPrefix(e, "commit ") {
			f := strings.Fields(e)
			if len(f) != 8 {
				continue
			}
			l.nCommit++
			var cr, ci, chh, cc uint64
			fmt.Sscanf(strings.Join(f[1:5], " "), "%d %d %d %d", &cr, &ci, &chh, &cc)
			pc := parseEntries(strings.TrimPrefix(f[5], "pc="))
			certs := parseEntries(strings.TrimPrefix(f[7], "certs="))
			obs := commitObs{r: cr, i: ci, h: chh, cert: cc != 0, accepted: true}
			w.lastCommitMembers = w.lastCommitMembers[:0]
			for a, wgt := range pc {
				w.lastCommitMembers = append(w.lastCommitMembers, member{3, a, wgt})
			}
			if cc != 0 {
				for a, wgt := range certs {
					w.lastCommitMembers = append(w.lastCommitMembers, member{5, a, wgt})
				}
			}
			if w.e2e != nil {
				obs.accepted, obs.detail = w.e2e.lastVerdict()
			} else if l.uniform {
				cnt := func(m map[uint64]uint64, vt uint64) uint32 {
					s := uint32(0)
					for a, wgt := range m {
						rec := stored(l.recs[ledKey{cr, ci, true, vt, a}])
						if rec != nil && rec.h == chh && rec.w == wgt && rec.cred == 1 {
							s += uint32(wgt)
						}
					}
					return s
				}
				c1 := cnt(pc, 3)
				if !ucon.VerifC03OverThreshold(c1, l.T, true) {
					obs.accepted, obs.detail = false, fmt.Sprintf("packed precommits with valid credentials weigh %d, below the quorum of threshold %d", c1, l.T)
				} else if cc != 0 {
					c2 := cnt(certs, 5)
					if !ucon.VerifC03OverThreshold(c2, l.Tc, false) {
						obs.accepted, obs.detail = false, fmt.Sprintf("packed certificate votes with valid credentials weigh %d, below the quorum of threshold %d", c2, l.Tc)
					}
				}
			}
			l.commits = append(l.commits, obs)
			if !obs.accepted {
				l.fail(fmt.Sprintf("commit_verifies: commit of %d in (%d,%d) cert=%v: %s", chh, cr, ci, cc != 0, obs.detail), l.matchCommit(w, obs))
			}
		}
	}
}

// matcherLenient is the matcher of known finding F-C03b: a vote whose credential FAILED the strict check was accepted
// by verifySortition's leniency for old votes (which compares with the Server's context) and then counted in the Voter's
// current context (delivered with status msgSame, or as a stale precommit stored in the wrapper of a context the Voter is
// still in or returns to).
const matcherLenient = "lenient-credential-counted"

// matchCommit names the known finding a failed commit belongs to ("" = none): F-C03b when removing nothing but the
// leniently accepted members explains the rejection, i.e. some packed precommit / certificate vote of the commit was
// accepted through the leniency while delivered with status same.
func (l *ledger) matchCommit(w *world, obs commitObs) string {
	if len(w.lastCommitMembers) == 0 {
		return ""
	}
	for _, m := range w.lastCommitMembers {
		rec := stored(l.recs[ledKey{obs.r, obs.i, true, m.vt, m.addr}])
		if rec != nil && rec.h == obs.h && rec.w == m.w && rec.cred == 2 {
			return matcherLenient
		}
	}
	return ""
}
