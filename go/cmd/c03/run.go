package main

// C03 harness: correspondence (real Voter vs. Lean model, op by op and dump by dump), implementation-level oracle
// (oracle.go), end-to-end commit verification on the real header verifier (e2e.go), float quorum and leniency
// function correspondence, known-finding probes, shrinking, replay.

import (
	"fmt"
	"sort"
	"strings"

	"github.com/youchainhq/go-youchain/consensus/ucon"
	"github.com/youchainhq/go-youchain/params"
	"verifharness/internal/quiet"
	"verifharness/internal/vh"
)

type scriptResult struct {
	mismatch string // first correspondence disagreement ("" = none)
	viol     []violation
	events   int
	commits  int
	precs    int
	doubles  int
	contexts int
	statuses map[string]int
	crashed  bool
	err      error
	canon    string
	equivCrt bool
	merged   int
	evidence int
	late     int
}

// runScript executes one script on a fresh real Voter and (when drv != nil) on the reset Lean model.
func runScript(lines []string, drv *vh.Driver) scriptResult {
	res := scriptResult{statuses: map[string]int{}}
	var w *world
	for _, l := range lines {
		if strings.HasPrefix(l, "E2E") {
			var err error
			w, err = newE2EWorld(l, lines...)
			if err != nil {
				res.err = err
				return res
			}
		}
	}
	if w == nil {
		w = newWorld()
	}
	if drv != nil {
		if _, err := drv.Ask("R"); err != nil {
			res.err = err
			return res
		}
	}
	ctxs := map[string]bool{}
	var canon strings.Builder
	for n, l := range lines {
		if l == "" || strings.HasPrefix(l, "E2E") || strings.HasPrefix(l, "HS ") {
			continue
		}
		if strings.HasPrefix(l, "U ") {
			var u uint64
			fmt.Sscanf(l, "U %d %d %d", &w.led.T, &w.led.Tc, &u)
			w.led.uniform = u != 0
			continue
		}
		if strings.HasPrefix(l, "S ") {
			if w.e2e != nil {
				var r, i uint64
				fmt.Sscanf(l, "S %d %d", &r, &i)
				w.e2e.setServer(r, i)
			}
			continue
		}
		if w.e2e != nil {
			// own sortition of the real world is pushed into the model as ES lines before the delivery
			for _, es := range w.e2e.envLines(w, l) {
				if _, err := w.apply(es); err != nil {
					res.err = err
					return res
				}
				if drv != nil {
					if _, err := drv.Ask(es); err != nil {
						res.err = err
						return res
					}
				}
			}
		}
		nc := len(w.led.commits)
		g, err := w.apply(l)
		if err != nil {
			res.err = fmt.Errorf("line %d %q: %v", n, l, err)
			return res
		}
		canon.WriteString(g)
		canon.WriteByte('\n')
		if strings.HasPrefix(l, "C ") {
			f := strings.Fields(l)
			ctxs[f[1]+"/"+f[2]] = true
		}
		if strings.HasPrefix(l, "V ") {
			f := strings.Fields(l)
			res.statuses["status"+f[8]]++
		}
		res.events += strings.Count(g, " | ")
		if strings.HasPrefix(g, "crash") {
			res.crashed = true
		}
		if drv != nil {
			m, err := drv.Ask(l)
			if err != nil {
				res.err = err
				return res
			}
			if m != g && res.mismatch == "" {
				res.mismatch = fmt.Sprintf("line %d %q:\n  go   %s\n  lean %s", n, l, g, m)
				break
			}
			if len(w.led.commits) > nc && (w.led.uniform || w.e2e != nil) {
				T, Tc := w.led.T, w.led.Tc
				ha, err := drv.Ask(fmt.Sprintf("HA %d %d", T, Tc))
				if err != nil {
					res.err = err
					return res
				}
				obs := w.led.commits[len(w.led.commits)-1]
				want := "reject"
				if obs.accepted {
					want = "accept"
				}
				if ha != want && res.mismatch == "" {
					res.mismatch = fmt.Sprintf("line %d %q: header verdict: real/implementation-side count says %s (%s), model headerAccepted says %s", n, l, want, obs.detail, ha)
					break
				}
			}
		}
	}
	w.finish()
	res.viol = w.led.viol
	res.late = w.nLate
	// an unmatched violation must never hide behind a known finding's: report those first (stable, deterministic)
	sort.SliceStable(res.viol, func(i, j int) bool {
		if (res.viol[i].matcher == "") != (res.viol[j].matcher == "") {
			return res.viol[i].matcher == ""
		}
		return res.viol[i].what < res.viol[j].what
	})
	res.commits = w.led.nCommit
	res.precs = w.led.nPrecommit
	res.doubles = w.led.nDouble
	res.contexts = len(ctxs)
	res.canon = canon.String()
	res.equivCrt = w.led.nEquivCert
	res.evidence = w.led.nEvidence
	if w.e2e != nil {
		res.merged = w.e2e.nMerged
	}
	return res
}

func (r scriptResult) failed() bool { return r.mismatch != "" || len(r.viol) > 0 || r.err != nil }

// failure signature used while shrinking: the same kind of failure must persist
func (r scriptResult) sig() string {
	if r.err != nil {
		return "err"
	}
	if r.mismatch != "" {
		return "mismatch"
	}
	if len(r.viol) > 0 {
		return "oracle:" + strings.SplitN(r.viol[0].what, ":", 2)[0] + ":" + r.viol[0].matcher
	}
	return ""
}

func shrinkScript(lines []string, drvPath string) []string {
	drv, err := vh.StartDriver(drvPath)
	if err != nil {
		return lines
	}
	defer drv.Close()
	want := runScript(lines, drv).sig()
	if want == "" {
		return lines
	}
	// the lines that DEFINE the world (validator sets per look-back height, thresholds) are not deliveries: removing one
	// would make the remaining vote lines inconsistent with the world, so only the deliveries are shrunk
	var world, body []string
	for _, l := range lines {
		if strings.HasPrefix(l, "E2E") || strings.HasPrefix(l, "HS ") || strings.HasPrefix(l, "U ") {
			world = append(world, l)
		} else {
			body = append(body, l)
		}
	}
	budget := 400
	body = vh.Shrink(body, func(cand []string) bool {
		if budget <= 0 {
			return false
		}
		budget--
		return runScript(append(append([]string{}, world...), cand...), drv).sig() == want
	})
	return append(world, body...)
}

func report(c *vh.Ctx, name string, lines []string, r scriptResult, shrink bool) {
	if shrink && c.Driver != "" {
		lines = shrinkScript(lines, c.Driver)
		drv, err := vh.StartDriver(c.Driver)
		if err == nil {
			r = runScript(lines, drv)
			drv.Close()
		}
	}
	kind, what, matcher := "oracle", "", ""
	switch {
	case r.err != nil:
		kind, what = "crash", "harness error: "+r.err.Error()
	case r.mismatch != "":
		kind, what = "correspondence", "model and real Voter disagree: "+r.mismatch
	case len(r.viol) > 0:
		what, matcher = r.viol[0].what, r.viol[0].matcher
	default:
		return
	}
	hdr := []string{"kind " + kind, "what " + strings.ReplaceAll(what, "\n", " / ")}
	if matcher != "" {
		hdr = append(hdr, "matcher "+matcher)
	}
	p := vh.WriteReplay(c.ReplayDir, "C03", name, c.Seed, hdr, lines)
	c.Res.Fail(kind, matcher, what, p)
}

func nontrivial(lines []string, r scriptResult) bool {
	senders := map[string]bool{}
	special := r.contexts >= 2 || r.doubles > 0
	for _, l := range lines {
		if strings.HasPrefix(l, "V ") {
			f := strings.Fields(l)
			senders[f[6]] = true
			if f[8] != "2" {
				special = true
			}
		}
	}
	return r.events >= 1 && len(senders) >= 2 && special
}

func run(c *vh.Ctx) error {
	quiet.Silence()
	params.InitNetworkId(params.NetworkIdForTestCase)
	initKeys()
	res := c.Res
	res.Rule = "case = one event history (context changes, received votes, environment changes) run on a fresh real Voter and on the model; non-trivial when the Voter emitted >= 1 event (own vote, commit, index change, header update), >= 2 distinct senders voted, and the history has an index/round change, an equivocation, or a stale/future/invalid-status vote; distinct by the canonical text of the real Voter's responses"
	var drv *vh.Driver
	var err error
	if c.Driver == "" {
		return fmt.Errorf("no driver")
	}
	drv, err = vh.StartDriver(c.Driver)
	if err != nil {
		return err
	}
	defer drv.Close()
	nfail := 0
	sigs := map[string]int{}
	do := func(name string, lines []string, family string) scriptResult {
		r := runScript(lines, drv)
		res.Count(r.canon, nontrivial(lines, r))
		res.TracesVsImpl++
		res.Dist("family:" + family)
		res.DistN("events-emitted", r.events)
		res.DistN("commits", r.commits)
		res.DistN("own-precommits", r.precs)
		res.DistN("double-voter-observations", b01(r.doubles > 0))
		res.DistN("double-vote-evidence-posted(BLS world)", r.evidence)
		res.DistN("commit-events-packed-and-verified-late(after further deliveries)", r.late)
		if r.crashed {
			res.Dist("voter-panicked(predicted)")
		}
		for k, v := range r.statuses {
			res.DistN(k, v)
		}
		for _, l := range lines {
			if f := strings.Fields(l); len(f) > 0 {
				res.Dist("op:" + f[0])
			}
		}
		if r.failed() {
			nfail++
			sigs[family+"/"+r.sig()]++
			if sigs[family+"/"+r.sig()] == 1 {
				report(c, fmt.Sprintf("%s-%d-%d", name, c.Seed, nfail), lines, r, true)
			}
		}
		return r
	}

	// ---- corpus first -------------------------------------------------------------------------------------------
	for _, f := range vh.CorpusFiles("C03") {
		body, _, err := vh.ReadReplay(f)
		if err != nil {
			continue
		}
		r := runScript(body, drv)
		res.Dist("corpus")
		if r.failed() {
			what := r.mismatch
			if len(r.viol) > 0 {
				what = r.viol[0].what
			}
			if r.err != nil {
				what = r.err.Error()
			}
			m := ""
			if len(r.viol) > 0 {
				m = r.viol[0].matcher
			}
			res.Fail("corpus", m, "corpus witness fails again: "+f+": "+what, f)
		}
	}

	// ---- float quorum and leniency functions --------------------------------------------------------------------
	if err := quorumCorrespondence(c, drv); err != nil {
		return err
	}

	// ---- all interleavings of small event multisets ------------------------------------------------------------------
	for bi, b := range permBases(c.Tier) {
		for _, s := range permScripts(b[1], b[0]) {
			do(fmt.Sprintf("perm%d", bi), s, "permutation")
		}
	}

	// ---- random histories ------------------------------------------------------------------------------------------
	n := c.N(1500, 20000)
	for k := 0; k < n; k++ {
		r := c.R.Fork()
		mal := k%4 == 3
		lines, meta := genScript(r, mal)
		fam := meta.family
		if mal {
			fam = "malformed"
		}
		rr := do("rand", lines, fam)
		if k < 3 {
			res.Sample(map[string]interface{}{"script": lines, "go_responses": strings.Split(strings.TrimSpace(rr.canon), "\n")})
		}
		if meta.cert {
			res.Dist("certificate-context")
		}
	}
	for k := 0; k < c.N(60, 600); k++ {
		lines, _ := certLatchScript(c.R.Fork())
		do("latch", lines, "cert-latch")
	}

	// ---- end to end: real credentials, real Server.commit, real header verifier ------------------------------------
	if err := runE2E(c, drv, do); err != nil {
		return err
	}

	res.Extra["failing_scripts"] = nfail
	res.Extra["failure_signatures"] = sigs
	// ---- probes for known findings ---------------------------------------------------------------------------------
	probes(c, drv)

	res.Partial = append(res.Partial,
		"BLS pairing arithmetic is trusted; the BLS vote path itself is exercised end to end in the E2EB worlds",
		"event-mux scheduling between Server, MessageHandler and Voter is an explicit order of deliveries, not Go scheduling",
		"staking evidence emitted for double votes (C05) is not modelled; the oracle checks it is only posted for a stored vote of another hash",
		"Server.updateBlockHeader's merge is checked at oracle level (merged header re-verified by the real verifier), not modelled")
	keys := make([]string, 0, len(res.Distribution))
	for k := range res.Distribution {
		keys = append(keys, k)
	}
	sort.Strings(keys)
	return nil
}

// quorumCorrespondence compares the model's float64 quorum with the real OverThreshold at and around the boundary,
// and the model's leniency function with its definition inputs (the real Server.verifySortition is compared in e2e).
func quorumCorrespondence(c *vh.Ctx, drv *vh.Driver) error {
	r := c.R.Fork()
	n := c.N(3000, 60000)
	var ts []uint64
	for t := uint64(0); t < 300; t++ {
		ts = append(ts, t)
	}
	for _, t := range []uint64{200, 400, 3400, 6600, 6800, 7000, 13000, 65535, 65536, 1 << 31, 1<<32 - 1, 1 << 32, 6270000000, 6269999999, 6271000000,
		1 << 52, 1<<53 - 1, 1 << 53, 1<<53 + 1, 1<<63 - 1, 1 << 63, 13464655174000000000, 13464655175000000000, 1<<64 - 1} {
		ts = append(ts, t, t+1, t-1)
	}
	for len(ts) < n {
		x := r.U64() >> uint(r.Intn(64))
		if r.Chance(30) {
			x = (x % 100000) * 200
		}
		ts = append(ts, x)
	}
	for _, t := range ts {
		for _, pos := range []bool{true, false} {
			m, err := drv.Ask(fmt.Sprintf("Q %d %d", t, b01(pos)))
			if err != nil {
				return err
			}
			var q uint64
			fmt.Sscanf(m, "%d", &q)
			ok := true
			if q <= 4294967295 {
				if !ucon.VerifC03OverThreshold(uint32(q), t, pos) {
					ok = false
				}
				if q > 0 && ucon.VerifC03OverThreshold(uint32(q-1), t, pos) {
					ok = false
				}
			} else {
				ok = false
			}
			c.Res.Dist("quorum-points")
			if !ok {
				p := vh.WriteReplay(c.ReplayDir, "C03", fmt.Sprintf("quorum-%d-%d", t, b01(pos)), c.Seed,
					[]string{"kind correspondence", fmt.Sprintf("model quorum(%d,%v) = %s is not the least count the real OverThreshold accepts (%d)", t, pos, m, quorumOf(t, pos))},
					[]string{fmt.Sprintf("Q %d %d", t, b01(pos))})
				c.Res.Fail("correspondence", "", fmt.Sprintf("float quorum: model quorum(%d,%v) = %s, real OverThreshold boundary is %d", t, pos, m, quorumOf(t, pos)), p)
				return nil
			}
		}
	}
	return nil
}

func replay(c *vh.Ctx, body, comments []string) (bool, string) {
	quiet.Silence()
	params.InitNetworkId(params.NetworkIdForTestCase)
	initKeys()
	var drv *vh.Driver
	if c.Driver != "" {
		d, err := vh.StartDriver(c.Driver)
		if err == nil {
			drv = d
			defer drv.Close()
		}
	}
	if len(body) == 1 && strings.HasPrefix(body[0], "Q ") && drv != nil {
		var t, p uint64
		fmt.Sscanf(body[0], "Q %d %d", &t, &p)
		m, _ := drv.Ask(body[0])
		real := quorumOf(t, p != 0)
		return m != fmt.Sprint(real), fmt.Sprintf("model quorum %s, real boundary %d", m, real)
	}
	r := runScript(body, drv)
	switch {
	case r.err != nil:
		return true, "harness error: " + r.err.Error()
	case r.mismatch != "":
		return true, "model and real Voter disagree: " + r.mismatch
	case len(r.viol) > 0:
		return true, "oracle: " + r.viol[0].what
	}
	return false, "no longer fails"
}
