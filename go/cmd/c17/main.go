package main

import "verifharness/internal/vh"

func main() {
	vh.Main(vh.Harness{Property: "C17", Run: run, Replay: replay})
}
