package main

// Part 2: "applied at most once and charged exactly". Block scripts are executed through the REAL
// core.StateProcessor.ApplyTransaction (real EVM converter, real staking converter) on a real StateDB, and,
// line by line, through the Lean model; then the property's statement is evaluated directly on what the
// real code did (implementation-level oracle).
//
// Script lines (also the replay format):
//   B <version> <gasLimit> <used0> <rewards0>           new block (protocol version of the VM config, block gas pool, accumulators)
//   A <keyIdx> <nonce> <balance>                        fund the account of key <keyIdx>
//   VAL <opKeyIdx> <valIdx> <role> <tokenYOU> <accept> <status>     pre-existing validator operated by key <opKeyIdx>
//   OCC <keyIdx> <nonce> <n|c>                          occupy CreateAddress(key, nonce) in the pre-state (nonce 1 / code): creation collision
//   T <mode> <keyIdx> <sigkind> <nonce> <price> <gas> <to|-> <value> <data|->
//        mode P: state left as ApplyTransaction leaves it; W: as worker.commitTransaction (snapshot / revert on error)
//        sigkind ok | net (signed for another network) | unprot (V = 27/28) | highs (high-s twin) | badv (V + 2)

import (
	"fmt"
	"math/big"
	"os"
	"strconv"
	"strings"

	"github.com/youchainhq/go-youchain/common"
	"github.com/youchainhq/go-youchain/core"
	"github.com/youchainhq/go-youchain/core/types"
	"github.com/youchainhq/go-youchain/crypto"
	"github.com/youchainhq/go-youchain/local"
	"github.com/youchainhq/go-youchain/params"
	"github.com/youchainhq/go-youchain/rlp"
	"github.com/youchainhq/go-youchain/staking"

	"verifharness/internal/vh"
)

var traceLines = os.Getenv("C17_TRACE") != ""

type finding struct {
	kind    string // correspondence | oracle
	matcher string
	what    string
	line    int // index of the script line
}

type execStats struct {
	dist       map[string]int
	traces     int
	nontrivial bool // some tx signed by a funded key got past signature recovery
}

func valKey(i int) []byte {
	k := keyFromLabel(fmt.Sprintf("val-%d", i))
	return crypto.CompressPubkey(&k.PublicKey)
}
func valAddr(i int) common.Address {
	k := keyFromLabel(fmt.Sprintf("val-%d", i))
	return crypto.PubkeyToAddress(k.PublicKey)
}

var bigYOU = new(big.Int).Exp(big.NewInt(10), big.NewInt(18), nil)

func you(n int64) *big.Int { return new(big.Int).Mul(big.NewInt(n), bigYOU) }

// stakeValueOf: the amount a staking message asks to move out of the sender's balance (generator-independent,
// so that replays can evaluate the oracle): create / deposit / delegation-add carry a value.
func stakeValueOf(data []byte) *big.Int {
	var m staking.Message
	if rlp.DecodeBytes(data, &m) != nil {
		return new(big.Int)
	}
	switch m.Action {
	case staking.ValidatorCreate:
		var t staking.TxCreateValidator
		if rlp.DecodeBytes(m.Payload, &t) == nil && t.Value != nil {
			return t.Value
		}
	case staking.ValidatorDeposit:
		var t staking.TxValidatorDeposit
		if rlp.DecodeBytes(m.Payload, &t) == nil && t.Value != nil {
			return t.Value
		}
	case staking.DelegationAdd:
		var t staking.TxDelegation
		if rlp.DecodeBytes(m.Payload, &t) == nil && t.Value != nil {
			return t.Value
		}
	}
	return new(big.Int)
}

type executor struct {
	drv     *vh.Driver
	b       *blockEnv
	sealed  bool
	synced  map[common.Address]bool
	stats   *execStats
	finds   []finding
	lineIdx int
	samples []string
	// last transaction applied (for the worker-loop op)
	lastClass   string
	lastTx      *types.Transaction
	lastReceipt *types.Receipt
	cands       [][]string // pending C lines
}

func (e *executor) ask(l string) string {
	if e.drv == nil {
		return ""
	}
	if traceLines {
		fmt.Fprintln(os.Stderr, ">>", l)
	}
	s, err := e.drv.Ask(l)
	if err != nil {
		return "driver-error: " + err.Error()
	}
	if traceLines {
		fmt.Fprintln(os.Stderr, "<<", s)
	}
	return s
}

func (e *executor) fail(kind, matcher, what string) {
	e.finds = append(e.finds, finding{kind, matcher, what, e.lineIdx})
}

func (e *executor) sync(a common.Address, force bool) {
	if e.synced[a] && !force {
		return
	}
	e.synced[a] = true
	code := 0
	if len(e.b.st.GetCode(a)) > 0 {
		code = 1
	}
	e.ask(fmt.Sprintf("ACC %x %d %s %d", a.Bytes(), e.b.st.GetNonce(a), e.b.st.GetBalance(a), code))
}

func atoi(s string) int { n, _ := strconv.Atoi(s); return n }
func atou(s string) uint64 {
	n, _ := strconv.ParseUint(s, 10, 64)
	return n
}

func newExecutor(drv *vh.Driver) *executor {
	return &executor{drv: drv, synced: map[common.Address]bool{}, stats: &execStats{dist: map[string]int{}}}
}

// runScript executes a block script on both sides and returns what failed.
func runScript(drv *vh.Driver, lines []string) ([]finding, *execStats) {
	e := newExecutor(drv)
	for i, l := range lines {
		e.lineIdx = i
		if !e.step(l) {
			break
		}
	}
	return e.finds, e.stats
}

// step executes one script line; false = cannot continue.
func (e *executor) step(l string) bool {
	f := strings.Fields(l)
	if len(f) == 0 {
		return true
	}
	switch f[0] {
	case "B":
		if len(f) != 5 {
			return true
		}
		rew, ok := parseBig(f[4])
		if !ok {
			return true
		}
		b, err := newBlock(atoi(f[1]), atou(f[2]), atou(f[3]), rew)
		if err != nil {
			e.fail("crash", "", "cannot build block environment: "+err.Error())
			return false
		}
		e.b, e.sealed, e.synced = b, false, map[common.Address]bool{}
		e.ask(fmt.Sprintf("RESET %d %d %x %d %d %s", params.NetworkId(), b.version, params.StakingModuleAddress.Bytes(), atou(f[2]), atou(f[3]), rew))
	case "A":
		if e.b == nil || len(f) != 4 || e.sealed {
			return true
		}
		bal, ok := parseBig(f[3])
		if !ok {
			return true
		}
		a := addrs[atoi(f[1])%nKeys]
		e.b.st.SetNonce(a, atou(f[2]))
		e.b.st.SetBalance(a, bal)
	case "VAL":
		if e.b == nil || len(f) != 7 || e.sealed {
			return true
		}
		op := addrs[atoi(f[1])%nKeys]
		vi := atoi(f[2])
		tok := you(int64(atoi(f[4])))
		e.b.st.CreateValidator(fmt.Sprintf("val%d", vi), op, op, params.ValidatorRole(atoi(f[3])), valKey(vi), []byte{1, 2, 3, 4},
			tok, params.YOUToStake(tok), uint16(atoi(f[5])), 1000, 0, uint8(atoi(f[6])))
	case "OCC": // OCC <keyIdx> <nonce> <n|c>: the address a creation by this key at this nonce derives is already occupied
		if e.b == nil || len(f) != 4 || e.sealed {
			return true
		}
		a := crypto.CreateAddress(addrs[atoi(f[1])%nKeys], atou(f[2]))
		if f[3] == "c" {
			e.b.st.SetCode(a, []byte{0x00})
		} else {
			e.b.st.SetNonce(a, 1)
		}
	case "T":
		if e.b == nil || len(f) != 10 {
			return true
		}
		if !e.ensureSealed() {
			return false
		}
		e.applyT(f)
	case "C": // candidate for the worker loop: C <keyIdx> <nonce> <price> <gas> <to|-> <value> <data|->
		if e.b == nil || len(f) != 8 {
			return true
		}
		e.cands = append(e.cands, []string{"T", "W", f[1], "ok", f[2], f[3], f[4], f[5], f[6], f[7]})
	case "WORKER":
		if e.b == nil {
			return true
		}
		if !e.ensureSealed() {
			return false
		}
		e.runWorker()
		e.cands = nil
	}
	return true
}

func (e *executor) ensureSealed() bool {
	if !e.sealed {
		if err := e.b.seal(); err != nil {
			e.fail("crash", "", "cannot commit the prepared state: "+err.Error())
			return false
		}
		e.sealed = true
	}
	return true
}

func (e *executor) buildTx(f []string) (*types.Transaction, int, error) {
	keyIdx := atoi(f[2]) % nKeys
	price, ok1 := parseBig(f[5])
	value, ok2 := parseBig(f[8])
	if !ok1 || !ok2 {
		return nil, 0, fmt.Errorf("bad number")
	}
	var data []byte
	if f[9] != "-" {
		data = common.Hex2Bytes(f[9])
	}
	r := rawTx{Nonce: atou(f[4]), Price: price, Gas: atou(f[6]), Value: value, Data: data, V: new(big.Int), R: new(big.Int), S: new(big.Int)}
	if f[7] != "-" {
		a := common.BytesToAddress(common.Hex2Bytes(f[7]))
		r.To = &a
	}
	netID := params.NetworkId()
	if f[3] == "net" {
		netID++
	}
	s, err := signRaw(netID, r, keyIdx)
	if err != nil {
		return nil, 0, err
	}
	switch f[3] {
	case "unprot":
		par := new(big.Int).Sub(s.V, big.NewInt(35))
		s.V = big.NewInt(27 + int64(par.Bit(0)))
	case "highs":
		s.S.Sub(secpN, s.S)
		par := new(big.Int).Sub(s.V, big.NewInt(35))
		if par.Bit(0) == 0 {
			s.V.Add(s.V, big.NewInt(1))
		} else {
			s.V.Sub(s.V, big.NewInt(1))
		}
	case "badv":
		s.V.Add(s.V, big.NewInt(2))
	}
	tx, err := s.toTx()
	return tx, keyIdx, err
}

func (e *executor) applyT(f []string) {
	b := e.b
	mode := f[1]
	tx, keyIdx, err := e.buildTx(f)
	if err != nil {
		e.stats.dist["tx:unbuildable"]++
		return
	}
	from := addrs[keyIdx]
	to := tx.To()
	isStaking := to != nil && *to == params.StakingModuleAddress
	var dest common.Address
	if to != nil {
		dest = *to
	} else {
		dest = crypto.CreateAddress(from, b.st.GetNonce(from))
	}
	e.sync(from, false)
	e.sync(dest, false)
	price, value, limit := tx.GasPrice(), tx.Value(), tx.Gas()

	// ---- observe before
	nonce0, bal0 := b.st.GetNonce(from), new(big.Int).Set(b.st.GetBalance(from))
	dbal0 := new(big.Int).Set(b.st.GetBalance(dest))
	cb0 := new(big.Int).Set(b.st.GetBalance(coinbase))
	pool0, used0, rew0 := b.gp.Gas(), *b.used, new(big.Int).Set(b.rew)
	roots0 := b.roots()
	codeAtDest := len(b.st.GetCode(dest)) > 0
	*theRec = convRec{}

	// ---- the real code
	snap := b.st.Snapshot()
	b.st.Prepare(tx.Hash(), common.Hash{}, b.txIndex)
	var receipt *types.Receipt
	var gas uint64
	func() {
		defer func() {
			if p := recover(); p != nil {
				err = fmt.Errorf("panic: %v", p)
			}
		}()
		receipt, gas, err = processor().ApplyTransaction(tx, b.signer, b.st, fakeChain{b.yp}, b.header, nil, b.used, b.rew, b.gp, b.cfg, local.FakeRecorder())
	}()
	class := classOf(err)
	rec := *theRec
	e.lastClass, e.lastTx, e.lastReceipt = class, tx, receipt
	if err == nil {
		b.txIndex++
	}
	rootsAfterErr := ""
	if err != nil {
		rootsAfterErr = b.roots()
		if mode == "W" {
			b.st.RevertToSnapshot(snap)
		}
	}
	// ---- observe after
	nonce1, bal1 := b.st.GetNonce(from), new(big.Int).Set(b.st.GetBalance(from))
	dbal1 := new(big.Int).Set(b.st.GetBalance(dest))
	pool1, used1, rew1 := b.gp.Gas(), *b.used, new(big.Int).Set(b.rew)
	refund1 := b.st.GetRefund()
	e.stats.dist["go:"+class]++
	if f[3] == "ok" && bal0.Sign() > 0 {
		e.stats.nontrivial = true
	}

	// ---- the model
	if e.drv != nil && class != "crash" {
		hint := ""
		switch {
		case isStaking:
			ok, stake := "0", new(big.Int)
			if rec.called && !rec.failed && rec.err == nil {
				ok = "1"
				stake.Sub(rec.balIn, rec.balOut)
			}
			hint = fmt.Sprintf("stk %s %s", ok, stake)
		case (to != nil && !codeAtDest && contractAt(dest) == nil) || (to == nil && len(tx.Data()) == 0):
			hint = fmt.Sprintf("plain %x", dest.Bytes())
		default:
			ok := "0"
			if rec.called && !rec.failed {
				ok = "1"
			}
			hint = fmt.Sprintf("evm %x %d %d %s", dest.Bytes(), rec.availOut, rec.refundAfter, ok)
		}
		toS := "-"
		if to != nil {
			toS = fmt.Sprintf("%x", to.Bytes())
		}
		goHead := "err " + class
		if err == nil {
			fl := 0
			if receipt.Status == types.ReceiptStatusFailed {
				fl = 1
			}
			goHead = fmt.Sprintf("ok %d %d %d", gas, fl, receipt.CumulativeGasUsed)
		}
		goIg := "-"
		if ig, ierr := processor().GetConverter(to).IntrinsicGas(tx.Data(), to); ierr == nil {
			goIg = fmt.Sprint(ig)
			if rec.called && rec.availIn != limit-ig {
				e.fail("oracle", "", fmt.Sprintf("converter was handed %d gas, expected limit %d - intrinsic %d", rec.availIn, limit, ig))
			}
		}
		want := fmt.Sprintf("%s ig=%s | %d %s %s %d %d %s %d", goHead, goIg, nonce1, bal1, dbal1, pool1, used1, rew1, refund1)
		got := "sender-error"
		if isSenderClass(class) {
			// the model's TX op starts after signature recovery; the SENDER op covers this part
			v, r, s := tx.RawSignatureValues()
			raw := rawTx{Nonce: tx.Nonce(), Price: price, Gas: limit, To: to, Value: value, Data: tx.Data(), V: v, R: r, S: s}
			if _, d := checkSender(e.drv, params.NetworkId(), raw); d != "" {
				e.fail("correspondence", "", d)
			}
			e.stats.traces++
		} else {
			got = e.ask(fmt.Sprintf("TX %s %x %d %s %d %s %s %s %s", mode, from.Bytes(), tx.Nonce(), price, limit, toS, value, hexOrDash(tx.Data()), hint))
			e.stats.traces++
			c := contractAt(dest)
			if c != nil && c.sweeps {
				// recipient balance not modelled for a self-destructing contract: blank it on both sides, then resync
				want = blankField(want, 2)
				got = blankField(got, 2)
			}
			if got != want {
				e.fail("correspondence", "", fmt.Sprintf("ApplyTransaction (%s): go=[%s] lean=[%s]", strings.Join(f, " "), want, got))
			}
			if c != nil && c.sweeps {
				e.sync(dest, true)
				e.sync(sinkAddr, true)
			}
		}
	}
	if len(e.samples) < 4 {
		e.samples = append(e.samples, fmt.Sprintf("%s => %s gas=%d", strings.Join(f, " "), class, gas))
	}

	// ---- implementation-level oracle: the property's statement on what the real code did
	if class == "crash" {
		e.fail("oracle", "", "ApplyTransaction panicked: "+err.Error())
		return
	}
	unchanged := func(roots string) bool {
		return roots == roots0 && pool1 == pool0 && used1 == used0 && rew1.Cmp(rew0) == 0
	}
	switch {
	case err != nil && isUpFront(class):
		// refused up front: nothing changes, whoever the caller is
		if !unchanged(rootsAfterErr) || refund1 != 0 {
			e.fail("oracle", "", fmt.Sprintf("transaction refused up front (%s) but something changed: pool %d->%d used %d->%d rewards %s->%s stateChanged=%v",
				class, pool0, pool1, used0, used1, rew0, rew1, rootsAfterErr != roots0))
		}
		// and the refusal is justified
		switch class {
		case "nonce-high":
			if !(nonce0 < tx.Nonce()) {
				e.fail("oracle", "", "nonce-too-high refusal but account nonce >= tx nonce")
			}
		case "nonce-low":
			if !(nonce0 > tx.Nonce()) {
				e.fail("oracle", "", "nonce-too-low refusal but account nonce <= tx nonce")
			}
		case "no-gas-money":
			if bal0.Cmp(new(big.Int).Mul(price, new(big.Int).SetUint64(limit))) >= 0 {
				e.fail("oracle", "", "refused as unable to pay for gas, but the balance covers gas limit x price")
			}
		case "pool":
			if pool0 >= limit {
				e.fail("oracle", "", "refused as block gas exhausted, but the pool covers the gas limit")
			}
		}
	case err != nil:
		// late error (after the gas purchase): the caller has to revert. worker: state reverted, pool not.
		e.stats.dist["late-error:"+class]++
		if mode == "W" {
			if b.roots() != roots0 || used1 != used0 || rew1.Cmp(rew0) != 0 {
				e.fail("oracle", "", "late error "+class+": the worker's revert did not restore the state / accumulators")
			}
			if pool1 != pool0 {
				e.stats.dist["late-error:pool-leak-in-worker"]++
			}
		}
	default:
		e.stats.dist["applied"]++
		if isStaking {
			e.stats.dist[fmt.Sprintf("applied:staking:failed=%v", receipt.Status == types.ReceiptStatusFailed)]++
			var sm staking.Message
			if rlp.DecodeBytes(tx.Data(), &sm) == nil && receipt.Status != types.ReceiptStatusFailed {
				e.stats.dist[fmt.Sprintf("applied:staking:ok:action-%d", sm.Action)]++
			}
			if sv := stakeValueOf(tx.Data()); receipt.Status == types.ReceiptStatusFailed && sv.Sign() > 0 && rec.balIn != nil && rec.balIn.Cmp(sv) >= 0 {
				// a value-carrying staking message the sender could afford, refused by another check
				e.stats.dist["applied:staking:failed-though-affordable"]++
			}
		} else if codeAtDest || to == nil {
			e.stats.dist[fmt.Sprintf("applied:code-run:failed=%v", receipt.Status == types.ReceiptStatusFailed)]++
		} else {
			e.stats.dist["applied:plain-transfer"]++
		}
		if rec.refundAfter > 0 {
			e.stats.dist["applied:with-refund"]++
		}
		gasCost := func(g uint64) *big.Int { return new(big.Int).Mul(price, new(big.Int).SetUint64(g)) }
		failed := receipt.Status == types.ReceiptStatusFailed
		if nonce0 != tx.Nonce() {
			e.fail("oracle", "", fmt.Sprintf("applied with nonce %d while the account's next nonce was %d", tx.Nonce(), nonce0))
		}
		if bal0.Cmp(gasCost(limit)) < 0 {
			e.fail("oracle", "", "applied although the balance did not cover gas limit x price")
		}
		if nonce1 != nonce0+1 {
			e.fail("oracle", "", fmt.Sprintf("nonce %d -> %d, expected +1", nonce0, nonce1))
		}
		if receipt.GasUsed != gas {
			e.fail("oracle", "", "receipt.GasUsed differs from the returned gas")
		}
		ig := oracleIntrinsic(to, tx.Data())
		if gas < ig || gas > limit {
			e.fail("oracle", "", fmt.Sprintf("gas used %d outside [intrinsic %d, limit %d]", gas, ig, limit))
		}
		// the value the transaction transfers or stakes
		moved := new(big.Int)
		if !failed {
			if isStaking {
				moved = stakeValueOf(tx.Data())
			} else if dest != from {
				moved = value
			}
		}
		wantDelta := new(big.Int).Add(moved, gasCost(gas))
		delta := new(big.Int).Sub(bal0, bal1)
		poolDelta := pool0 - pool1
		if delta.Cmp(wantDelta) != 0 || poolDelta != gas {
			// which known defect, if any, explains exactly this discrepancy?
			matcher := ""
			capRefund := gas / 2
			if rec.refundAfter < capRefund {
				capRefund = rec.refundAfter
			}
			short := new(big.Int).Sub(wantDelta, delta) // what the sender was not charged
			switch {
			case rec.refundAfter > 0 && !isStaking && short.Cmp(gasCost(capRefund)) == 0 && gas-poolDelta == capRefund:
				matcher = "gas-refund-not-in-gas-used"
			case b.version < 4 && isStaking && failed && gas == limit && rec.availOut > 0 && short.Cmp(gasCost(rec.availOut)) == 0 && gas-poolDelta == rec.availOut:
				matcher = "pre-v4-failed-staking"
			}
			e.fail("oracle", matcher, fmt.Sprintf("charged exactly: sender balance changed by %s, expected value moved %s + gas used %d x price %s = %s; pool changed by %d, gas used %d (refund counter %d, version %d)",
				delta, moved, gas, price, wantDelta, poolDelta, gas, rec.refundAfter, b.version))
		}
		if used1 != used0+gas || receipt.CumulativeGasUsed != used1 {
			e.fail("oracle", "", "usedGas / cumulative gas not advanced by the gas used")
		}
		if new(big.Int).Sub(rew1, rew0).Cmp(gasCost(gas)) != 0 {
			e.fail("oracle", "", "gasRewards not advanced by gas used x price")
		}
		if c := contractAt(dest); dest != from && (c == nil || !c.sweeps) {
			if new(big.Int).Sub(dbal1, dbal0).Cmp(condBig(isStaking, new(big.Int), moved)) != 0 {
				e.fail("oracle", "", fmt.Sprintf("recipient balance changed by %s, value moved %s", new(big.Int).Sub(dbal1, dbal0), moved))
			}
		}
		if coinbase != dest && coinbase != from && b.st.GetBalance(coinbase).Cmp(cb0) != 0 {
			e.fail("oracle", "", "coinbase balance changed by ApplyTransaction (rewards are only accumulated in the header)")
		}
		if refund1 != 0 {
			e.fail("oracle", "", "refund counter not cleared after an applied transaction")
		}
		// applied at most once: the same transaction again is refused and changes nothing
		st2 := b.st.Copy()
		gp2 := *b.gp
		u2, r2 := *b.used, new(big.Int).Set(b.rew)
		rootsNow := b.roots()
		var err2 error
		func() {
			defer func() {
				if p := recover(); p != nil {
					err2 = fmt.Errorf("panic: %v", p)
				}
			}()
			_, _, err2 = processor().ApplyTransaction(tx, b.signer, st2, fakeChain{b.yp}, b.header, nil, &u2, r2, &gp2, b.cfg, local.FakeRecorder())
		}()
		r1, r2b, r3 := st2.IntermediateRoot(true)
		if classOf(err2) != "nonce-low" || r1.Hex()+r2b.Hex()+r3.Hex() != rootsNow || gp2.Gas() != b.gp.Gas() || u2 != *b.used || r2.Cmp(b.rew) != 0 {
			e.fail("oracle", "", fmt.Sprintf("applied at most once: re-applying the same transaction gave %v / changed something", err2))
		}
	}
}

func condBig(c bool, a, b *big.Int) *big.Int {
	if c {
		return a
	}
	return b
}

func isSenderClass(c string) bool { return c == "badsig" || c == "badnet" || c == "notprotected" }

// blankField replaces the i-th field after the '|' by '*'
func blankField(s string, i int) string {
	p := strings.Index(s, "| ")
	if p < 0 {
		return s
	}
	f := strings.Fields(s[p+2:])
	if i < len(f) {
		f[i] = "*"
	}
	return s[:p+2] + strings.Join(f, " ")
}

var _ = core.ErrNonceTooLow
