package main

// The worker's candidate loop, mirrored line by line from miner/worker.go commitTransactions over the REAL
// types.TransactionsByPriceAndNonce (Peek / Shift / Pop) and the real ApplyTransaction with snapshot/revert, followed by the
// REAL StateProcessor.Process on the block the loop assembled (fresh copy of the pre-state): "applied at most once" over a
// block candidate sequence, and builder = importer for usedGas / gasRewards / receipts / state roots.

import (
	"fmt"
	"math/big"
	"sort"

	"github.com/youchainhq/go-youchain/common"
	"github.com/youchainhq/go-youchain/consensus/solo"
	"github.com/youchainhq/go-youchain/core"
	"github.com/youchainhq/go-youchain/core/state"
	"github.com/youchainhq/go-youchain/core/types"
	"github.com/youchainhq/go-youchain/core/vm"
	"github.com/youchainhq/go-youchain/local"
	"github.com/youchainhq/go-youchain/params"
	"github.com/youchainhq/go-youchain/staking"
)

var importProc *core.StateProcessor

// importProcessor: a second real StateProcessor as block import uses it (unwrapped converters, solo engine whose Finalize
// does nothing, no end-block hooks: the staking end-block hook needs a full BlockChain and belongs to C06/C07).
func importProcessor() *core.StateProcessor {
	if importProc == nil {
		importProc = core.NewStateProcessor(nil, solo.NewSolo())
		importProc.AddTxConverter(params.StakingModuleAddress, &staking.TxConverter{})
	}
	return importProc
}

func (e *executor) runWorker() {
	b := e.b
	fieldsOf := map[common.Hash][]string{}
	groups := map[common.Address]types.Transactions{}
	preNonce := map[common.Address]uint64{}
	for _, f := range e.cands {
		tx, keyIdx, err := e.buildTx(f)
		if err != nil {
			continue
		}
		// accessors the pool / worker use on candidates
		if want := new(big.Int).Add(tx.Value(), new(big.Int).Mul(tx.GasPrice(), new(big.Int).SetUint64(tx.Gas()))); tx.Cost().Cmp(want) != 0 {
			e.fail("oracle", "", fmt.Sprintf("Cost() = %s, expected value + price x gas = %s", tx.Cost(), want))
		}
		if !tx.CheckNonce() || tx.Size() <= 0 {
			e.fail("oracle", "", "CheckNonce()/Size() of a signed transaction")
		}
		fieldsOf[tx.Hash()] = f
		a := addrs[keyIdx]
		groups[a] = append(groups[a], tx)
		preNonce[a] = b.st.GetNonce(a)
	}
	nCand := 0
	for a := range groups {
		sort.Stable(types.TxByNonce(groups[a])) // the pool hands over nonce-sorted lists
		nCand += len(groups[a])
	}
	if nCand == 0 {
		return
	}
	txs := types.NewTransactionsByPriceAndNonce(b.signer, groups)
	var included []*types.Transaction
	var receipts []*types.Receipt
	attempts := 0
	pool0 := b.gp.Gas()
	for attempts < 4*nCand+4 {
		if b.gp.Gas() < params.TxGas {
			e.stats.dist["worker:stopped-pool-below-txgas"]++
			break
		}
		tx := txs.Peek()
		if tx == nil {
			break
		}
		attempts++
		f := fieldsOf[tx.Hash()]
		poolBefore := b.gp.Gas()
		e.applyT(f)
		if e.lastTx == nil || e.lastTx.Hash() != tx.Hash() {
			e.fail("crash", "", "harness: rebuilt candidate differs from the peeked transaction")
			return
		}
		if b.gp.Gas() > poolBefore {
			e.fail("oracle", "", "the block gas pool grew during the worker loop")
		}
		e.stats.dist["worker:attempt:"+e.lastClass]++
		switch e.lastClass {
		case "pool":
			txs.Pop()
		case "nonce-low":
			txs.Shift()
		case "nonce-high":
			txs.Pop()
		case "ok":
			included = append(included, tx)
			receipts = append(receipts, e.lastReceipt)
			txs.Shift()
		default:
			txs.Shift()
		}
	}
	e.stats.dist["worker:loops"]++
	e.stats.dist["worker:candidates"] += nCand
	e.stats.dist["worker:included"] += len(included)
	// ---- applied at most once, in nonce order, within the block gas pool
	seen := map[common.Hash]bool{}
	next := map[common.Address]uint64{}
	for a, n := range preNonce {
		next[a] = n
	}
	var sumGas uint64
	for i, tx := range included {
		if seen[tx.Hash()] {
			e.fail("oracle", "", fmt.Sprintf("transaction %x included twice in one block", tx.Hash()))
		}
		seen[tx.Hash()] = true
		a, _ := types.Sender(b.signer, tx)
		if tx.Nonce() != next[a] {
			e.fail("oracle", "", fmt.Sprintf("included transaction of %x has nonce %d, the account's next nonce was %d", a, tx.Nonce(), next[a]))
		}
		next[a] = tx.Nonce() + 1
		sumGas += receipts[i].GasUsed
		if receipts[i].CumulativeGasUsed != sumGas {
			e.fail("oracle", "", "cumulative gas of the receipts is not the running sum of gas used")
		}
	}
	for a, n := range next {
		if b.st.GetNonce(a) != n {
			e.fail("oracle", "", fmt.Sprintf("account %x: nonce %d after the loop, %d transactions included from nonce %d", a, b.st.GetNonce(a), n-preNonce[a], preNonce[a]))
		}
	}
	if pool0 < b.gp.Gas() {
		e.fail("oracle", "", "block gas pool larger after the loop than before")
	}
	// ---- the importer on the assembled block
	if len(included) == 0 || b.txIndex != len(included) || b.used0 != 0 || b.rew0.Sign() != 0 {
		return // (a block with T lines before WORKER is not re-imported)
	}
	e.importCheck(included, receipts)
}

func (e *executor) importCheck(included []*types.Transaction, receipts []*types.Receipt) {
	b := e.b
	run := func(rewards *big.Int) (res *types.ProcessResult, roots string, err error) {
		defer func() {
			if p := recover(); p != nil {
				err = fmt.Errorf("panic: %v", p)
			}
		}()
		st, serr := state.New(b.root, b.valRoot, b.stakingRoot, b.db)
		if serr != nil {
			return nil, "", serr
		}
		h := types.CopyHeader(b.header)
		h.GasUsed, h.GasRewards = *b.used, new(big.Int).Set(rewards)
		block := types.NewBlock(h, included, nil)
		res, err = importProcessor().Process(b.yp, block, st, vm.LocalConfig{}, local.FakeRecorder())
		if err == nil {
			r1, r2, r3 := st.IntermediateRoot(true)
			roots = r1.Hex() + r2.Hex() + r3.Hex()
		}
		return
	}
	res, roots, err := run(b.rew)
	e.stats.dist["import:blocks"]++
	if err != nil {
		// a late error that only shows on import cannot happen: the worker included only applied transactions
		e.fail("oracle", "", fmt.Sprintf("Process rejects the block the worker loop assembled (%d txs): %v", len(included), err))
		return
	}
	if res.UsedGas != *b.used {
		e.fail("oracle", "", fmt.Sprintf("Process: usedGas %d, worker %d", res.UsedGas, *b.used))
	}
	if roots != b.roots() {
		e.fail("oracle", "", "Process: state roots differ from the worker's")
	}
	if len(res.Recs) != len(receipts) {
		e.fail("oracle", "", "Process: number of receipts differs")
	} else {
		for i := range receipts {
			if res.Recs[i].Status != receipts[i].Status || res.Recs[i].GasUsed != receipts[i].GasUsed || res.Recs[i].CumulativeGasUsed != receipts[i].CumulativeGasUsed || res.Recs[i].TxHash != receipts[i].TxHash {
				e.fail("oracle", "", fmt.Sprintf("Process: receipt %d differs from the worker's", i))
			}
		}
	}
	// gasRewards is verified by the importer
	if b.rew.Sign() >= 0 {
		if _, _, err2 := run(new(big.Int).Add(b.rew, big.NewInt(1))); err2 == nil || err2.Error() != "invalid gas rewards" {
			e.fail("oracle", "", fmt.Sprintf("Process accepts a header whose GasRewards is off by one (err=%v)", err2))
		}
	}
}
