package main

import (
	"fmt"
	"math/big"
	"strings"

	"github.com/youchainhq/go-youchain/params"

	"verifharness/internal/quiet"
	"verifharness/internal/vh"
)

// known findings of C17 (KNOWN_FINDINGS.txt): matcher -> probe script
var probes = []struct {
	id, matcher, what string
	script            []string
}{
	{"F-C17a", "gas-refund-not-in-gas-used",
		"ApplyMessageEntry takes the converter's gasUsed before refundGas runs: receipt/header gas and gasRewards include the refunded gas, the sender and the pool are charged without it",
		[]string{"B 5 8000000 0 0", "A 0 0 1000000000000000000", "T P 0 ok 0 1000 100000 0000000000000000000000000000000000c0de03 0 -"}},
	{"F-C17b", "pre-v4-failed-staking",
		"before YouV4 a failed staking message reports gasUsed = gas limit but the unused gas is refunded to the sender and the pool",
		[]string{"B 3 8000000 0 0", "A 0 0 1000000000000000000", "T P 0 ok 0 1000 200000 00000056616c696461746f72734d616e61676572 0 010203"}},
}

func checkConsts(drv *vh.Driver) string {
	if drv == nil {
		return ""
	}
	ans, err := drv.Ask("CONST")
	if err != nil {
		return err.Error()
	}
	halfN := new(big.Int).Rsh(secpN, 1)
	want := fmt.Sprintf("%d %d %d %d %d %d %s", params.TxGas, params.TxGasContractCreation, params.TxDataZeroGas, params.TxDataNonZeroGas,
		params.TxValidatorGas, params.TxValCreationGas, halfN)
	if ans != want {
		return fmt.Sprintf("constants: go=[%s] lean=[%s]", want, ans)
	}
	return ""
}

func sameFailure(fs []finding, kind, matcher string) bool {
	for _, f := range fs {
		if f.kind == kind && f.matcher == matcher {
			return true
		}
	}
	return false
}

// shrinkScript keeps the setup lines and delta-debugs the T lines.
func shrinkScript(drv *vh.Driver, script []string, kind, matcher string) []string {
	var setup, txs []string
	var tail []string
	for _, l := range script {
		if strings.HasPrefix(l, "T ") || strings.HasPrefix(l, "C ") {
			txs = append(txs, l)
		} else if l == "WORKER" {
			tail = []string{l}
		} else {
			setup = append(setup, l)
		}
	}
	fails := func(sub []string) bool {
		fs, _ := runScript(drv, append(append(append([]string{}, setup...), sub...), tail...))
		return sameFailure(fs, kind, matcher)
	}
	if !fails(txs) {
		return script
	}
	txs = vh.Shrink(txs, fails)
	// drop setup lines that are not needed
	for i := len(setup) - 1; i >= 1; i-- {
		cand := append(append([]string{}, setup[:i]...), setup[i+1:]...)
		fs, _ := runScript(drv, append(append(append([]string{}, cand...), txs...), tail...))
		if sameFailure(fs, kind, matcher) {
			setup = cand
		}
	}
	return append(append(setup, txs...), tail...)
}

func run(c *vh.Ctx) error {
	quiet.Silence()
	params.InitNetworkId(params.NetworkIdForTestCase)
	initKeys()
	res := c.Res
	res.Rule = "case = one signed transaction with one mutation (authenticity part), or one block script (accounts, validators, 4-16 transactions applied through the real StateProcessor.ApplyTransaction); non-trivial when the transaction is signed by a held key (gets past signature recovery) and, for block scripts, at least one transaction is signed by a funded key; distinct by canonical text"
	var drv *vh.Driver
	if c.Driver != "" {
		d, err := vh.StartDriver(c.Driver)
		if err != nil {
			return err
		}
		drv = d
		defer drv.Close()
	}
	if d := checkConsts(drv); d != "" {
		rp := vh.WriteReplay(c.ReplayDir, "C17", "constants", c.Seed, []string{"correspondence: " + d}, []string{"CONST"})
		res.Fail("correspondence", "", d, rp)
	}

	// ---- corpus first
	for _, f := range vh.CorpusFiles("C17") {
		body, comments, err := vh.ReadReplay(f)
		if err != nil {
			continue
		}
		res.Dist("corpus")
		if len(body) > 0 && strings.HasPrefix(body[0], "B ") {
			// block scripts: findings that match a known-finding matcher are reported by the probes; anything else fails
			fs, _ := runScript(drv, body)
			for _, fd := range fs {
				if fd.matcher == "" {
					res.Fail("corpus", "", "corpus witness fails: "+f+": "+fd.kind+": "+fd.what, f)
				}
			}
			continue
		}
		if still, what := replayWith(drv, body, comments); still {
			res.Fail("corpus", "", "corpus witness fails: "+f+": "+what, f)
		}
	}

	// ---- probes of the known findings
	for _, p := range probes {
		fs, _ := runScript(drv, p.script)
		rep := sameFailure(fs, "oracle", p.matcher)
		res.Probes = append(res.Probes, vh.Probe{ID: p.id, Reproduced: rep, What: p.what})
		for _, f := range fs {
			if !(f.kind == "oracle" && f.matcher == p.matcher) {
				rp := vh.WriteReplay(c.ReplayDir, "C17", "probe-"+p.id, c.Seed, []string{f.kind + ": " + f.what}, p.script)
				res.Fail(f.kind, f.matcher, "probe "+p.id+": "+f.what, rp)
			}
		}
	}

	// ---- the import path rejects blocks with late errors
	if w := processRejectsLateErrors(); w != "" {
		rp := vh.WriteReplay(c.ReplayDir, "C17", "process-late-error", c.Seed, []string{"oracle: " + w}, []string{"PROCESS-LATE"})
		res.Fail("oracle", "", w, rp)
	}
	res.Dist("process-rejects-late-error-blocks")

	// ---- part 1: authenticity
	if err := runSenderPart(c, drv); err != nil {
		return err
	}

	// ---- part 2: accounting through ApplyTransaction
	nBlocks := c.N(2500, 30000)
	if c.Search {
		nBlocks *= 3
	}
	reported := map[string]bool{}
	for bi := 0; bi < nBlocks; bi++ {
		var script []string
		var e *executor
		var dist map[string]int
		if bi%4 == 3 {
			script, e, dist = genWorkerBlock(c.R, drv)
		} else {
			script, e, dist = genBlock(c.R, drv)
		}
		for k, v := range dist {
			res.DistN(k, v)
		}
		for k, v := range e.stats.dist {
			res.DistN(k, v)
		}
		res.TracesVsImpl += e.stats.traces
		res.Count(strings.Join(script, "\n"), e.stats.nontrivial)
		res.Dist(fmt.Sprintf("block:version-%d", e.b.version))
		if bi < 2 {
			res.Sample(map[string]interface{}{"kind": "block script", "script": script, "outcomes": e.samples})
		}
		for _, f := range e.finds {
			key := f.kind + "|" + f.matcher
			if f.matcher != "" {
				res.Dist("known-finding-hit:" + f.matcher)
			}
			if reported[key] {
				continue
			}
			reported[key] = true
			small := shrinkScript(drv, script, f.kind, f.matcher)
			hdr := []string{f.kind + ": " + f.what}
			if f.matcher != "" {
				hdr = append(hdr, "matcher: "+f.matcher)
			}
			name := fmt.Sprintf("block-%d-%s", bi, f.kind)
			if f.matcher != "" {
				name = "known-" + f.matcher // stable name: one file per known finding, overwritten by every run
			}
			rp := vh.WriteReplay(c.ReplayDir, "C17", name, c.Seed, hdr, small)
			res.Fail(f.kind, f.matcher, f.what, rp)
		}
	}
	res.Partial = append(res.Partial,
		"signature recovery (secp256k1) and Keccak-256 are abstract in the theorems; the driver's Keccak is compared with Go's on every case",
		"EVM execution and the staking action handlers are parameters of the model (constrained by stated contracts); correspondence feeds their observed outcome (gas left, refund counter, failed, amount debited) to the model, which must reproduce everything ApplyMessageEntry/ApplyTransaction do around them",
		"callee-initiated transfers back to the sender (a contract paying tx.origin) are separate transfers, not generated",
		"uint64 nonce wrap-around at 2^64-1 is carried as a guard in the theorems and not generated")
	return nil
}

func replayWith(drv *vh.Driver, body, comments []string) (bool, string) {
	if len(body) == 0 {
		return false, "empty replay"
	}
	if body[0] == "CONST" {
		d := checkConsts(drv)
		return d != "", d
	}
	if body[0] == "PROCESS-LATE" {
		w := processRejectsLateErrors()
		return w != "", w
	}
	if strings.HasPrefix(body[0], "S ") || strings.HasPrefix(body[0], "P ") {
		fails := false
		var msgs []string
		for _, l := range body {
			f, w := replaySenderLine(drv, l)
			fails = fails || f
			msgs = append(msgs, w)
		}
		return fails, strings.Join(msgs, "; ")
	}
	fs, _ := runScript(drv, body)
	var msgs []string
	for _, f := range fs {
		m := f.kind + ": " + f.what
		if f.matcher != "" {
			m += " [matcher " + f.matcher + "]"
		}
		msgs = append(msgs, m)
	}
	if len(fs) == 0 {
		return false, "no failure"
	}
	return true, strings.Join(msgs, "; ")
}

func replay(c *vh.Ctx, body, comments []string) (bool, string) {
	quiet.Silence()
	params.InitNetworkId(params.NetworkIdForTestCase)
	initKeys()
	var drv *vh.Driver
	if c.Driver != "" {
		if d, err := vh.StartDriver(c.Driver); err == nil {
			drv = d
			defer drv.Close()
		}
	}
	return replayWith(drv, body, comments)
}
