package main

// What the real import path does with an error raised after the gas purchase: StateProcessor.Process must reject
// the whole block (the property's "refused" cases list only the three up-front reasons; the late ones rely on this).

import (
	"fmt"
	"math/big"

	"github.com/youchainhq/go-youchain/common"
	"github.com/youchainhq/go-youchain/core/types"
	"github.com/youchainhq/go-youchain/core/vm"
	"github.com/youchainhq/go-youchain/local"
)

// processRejectsLateErrors builds two blocks [good transfer, late-error tx] (intrinsic gas above the limit; value above the
// balance left after the gas purchase) and runs the real Process on them. Returns a description of a failure, or "".
func processRejectsLateErrors() (what string) {
	defer func() {
		if p := recover(); p != nil {
			what = fmt.Sprintf("Process panicked on a block with a late-error transaction: %v", p)
		}
	}()
	eoa := common.HexToAddress("0x00000000000000000000000000000000000000ee")
	for _, late := range []struct {
		name  string
		gas   uint64
		value *big.Int
		class string
	}{
		{"gas limit below intrinsic", 20999, big.NewInt(0), "intrinsic"},
		{"value above the balance left after the gas purchase", 21000, you(2), "no-value-money"},
	} {
		b, err := newBlock(5, 8000000, 0, new(big.Int))
		if err != nil {
			return err.Error()
		}
		b.st.SetBalance(addrs[0], you(1))
		if err := b.seal(); err != nil {
			return err.Error()
		}
		t1, _ := types.SignTx(types.NewTransaction(0, eoa, big.NewInt(1), 21000, big.NewInt(1000), nil), b.signer, keys[0])
		t2, _ := types.SignTx(types.NewTransaction(1, eoa, late.value, late.gas, big.NewInt(1000), nil), b.signer, keys[0])
		block := types.NewBlock(b.header, []*types.Transaction{t1, t2}, nil)
		res, perr := processor().Process(b.yp, block, b.st, vm.LocalConfig{}, local.FakeRecorder())
		if perr == nil {
			return fmt.Sprintf("Process accepted a block containing a transaction that fails after the gas purchase (%s): result %v", late.name, res != nil)
		}
		if classOf(perr) != late.class {
			return fmt.Sprintf("Process did not stop at the late error of the second transaction (%s): it returned %q", late.name, perr.Error())
		}
	}
	return ""
}
