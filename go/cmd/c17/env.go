package main

// Environment shared by the C17 harness: deterministic keys, the tiny contract zoo, a real StateDB,
// the real core.StateProcessor with the real converters (wrapped by a recorder through the verif hook),
// error classification.

import (
	"crypto/ecdsa"
	"errors"
	"fmt"
	"math/big"
	"strings"

	"github.com/youchainhq/go-youchain/common"
	"github.com/youchainhq/go-youchain/core"
	"github.com/youchainhq/go-youchain/core/state"
	"github.com/youchainhq/go-youchain/core/types"
	"github.com/youchainhq/go-youchain/core/vm"
	"github.com/youchainhq/go-youchain/crypto"
	"github.com/youchainhq/go-youchain/params"
	"github.com/youchainhq/go-youchain/staking"
	"github.com/youchainhq/go-youchain/youdb"
)

const nKeys = 8

var (
	keys      []*ecdsa.PrivateKey
	addrs     []common.Address
	masterKey *ecdsa.PrivateKey
	coinbase  = common.HexToAddress("0x00000000000000000000000000000000000c0ba5")
	sinkAddr  = common.HexToAddress("0x0000000000000000000000000000000000051c4b")
	eoaAddrs  = []common.Address{ // recipients without code or key
		common.HexToAddress("0x00000000000000000000000000000000000000ee"),
		common.HexToAddress("0xee000000000000000000000000000000000000ee"),
		common.HexToAddress("0x0000000000000000000000000000000000001234"),
	}
	secpN, _ = new(big.Int).SetString("fffffffffffffffffffffffffffffffebaaedce6af48a03bbfd25e8cd0364141", 16)
)

func keyFromLabel(label string) *ecdsa.PrivateKey {
	for i := 0; ; i++ {
		h := crypto.Keccak256([]byte(fmt.Sprintf("c17-%s-%d", label, i)))
		k, err := crypto.ToECDSA(h)
		if err == nil {
			return k
		}
	}
}

func initKeys() {
	if keys != nil {
		return
	}
	for i := 0; i < nKeys; i++ {
		k := keyFromLabel(fmt.Sprintf("key-%d", i))
		keys = append(keys, k)
		addrs = append(addrs, crypto.PubkeyToAddress(k.PublicKey))
	}
	masterKey = keyFromLabel("master")
}

// ---- tiny contracts ----------------------------------------------------------------------------

type contract struct {
	name   string
	addr   common.Address
	code   []byte
	slot0  int64 // preset value of storage slot 0 (committed before the block)
	sweeps bool  // the run may move the contract's whole balance elsewhere (SELFDESTRUCT): recipient balance not compared
}

func caddr(i int) common.Address { return common.BytesToAddress([]byte{0xc0, 0xde, byte(i)}) }

var contracts = []contract{
	{name: "stop", addr: caddr(1), code: []byte{0x00}},
	{name: "sstore-set", addr: caddr(2), code: []byte{0x60, 0x01, 0x60, 0x01, 0x55, 0x00}},
	{name: "sstore-clear", addr: caddr(3), code: []byte{0x60, 0x00, 0x60, 0x00, 0x55, 0x00}, slot0: 1},
	{name: "sstore-toggle", addr: caddr(4), code: []byte{0x60, 0x00, 0x54, 0x15, 0x60, 0x00, 0x55, 0x00}, slot0: 1},
	{name: "revert", addr: caddr(5), code: []byte{0x60, 0x00, 0x60, 0x00, 0xfd}},
	{name: "invalid", addr: caddr(6), code: []byte{0xfe}},
	{name: "loop", addr: caddr(7), code: []byte{0x5b, 0x60, 0x00, 0x56}},
	{name: "selfdestruct", addr: caddr(8), code: append(append([]byte{0x73}, sinkAddr.Bytes()...), 0xff), sweeps: true},
	{name: "precompile-sha256", addr: common.BytesToAddress([]byte{2})},
	{name: "precompile-identity", addr: common.BytesToAddress([]byte{4})},
}

// creation init codes
var initCodes = [][]byte{
	{}, // empty: creates an empty account
	{0x60, 0x00, 0x60, 0x00, 0x53, 0x60, 0x01, 0x60, 0x00, 0xf3}, // returns 1 byte of runtime code
	{0x60, 0x00, 0x60, 0x00, 0xfd},                               // REVERT
	{0xfe},                                                       // INVALID: all gas gone
	{0x60, 0x01, 0x60, 0x00, 0x55, 0x00},                         // SSTORE then STOP (empty runtime)
	{0x61, 0x60, 0x00, 0x60, 0x00, 0xf3},                         // RETURN(0, 0x6000): code deposit too expensive / too large
}

func contractAt(a common.Address) *contract {
	for i := range contracts {
		if contracts[i].addr == a {
			return &contracts[i]
		}
	}
	return nil
}

// ---- recorder around the real converters ---------------------------------------------------------

type convRec struct {
	called                          bool
	availIn, availOut, initial      uint64
	reported, refundIn, refundAfter uint64
	failed                          bool
	err                             error
	balIn, balOut                   *big.Int
	nonceIn, nonceOut               uint64
}

type recConv struct {
	inner core.TxConverter
	rec   *convRec
}

func (r recConv) IntrinsicGas(data []byte, to *common.Address) (uint64, error) {
	return r.inner.IntrinsicGas(data, to)
}

func (r recConv) ApplyMessage(m *core.MessageContext) ([]byte, uint64, bool, error) {
	from := m.Msg.From()
	r.rec.called = true
	r.rec.availIn, r.rec.initial = m.AvailableGas, m.InitialGas
	r.rec.refundIn = m.State.GetRefund()
	r.rec.balIn = new(big.Int).Set(m.State.GetBalance(from))
	r.rec.nonceIn = m.State.GetNonce(from)
	ret, g, f, err := r.inner.ApplyMessage(m)
	r.rec.availOut, r.rec.reported, r.rec.failed, r.rec.err = m.AvailableGas, g, f, err
	r.rec.refundAfter = m.State.GetRefund()
	r.rec.balOut = new(big.Int).Set(m.State.GetBalance(from))
	r.rec.nonceOut = m.State.GetNonce(from)
	return ret, g, f, err
}

type fakeChain struct{ yp *params.YouParams }

func (f fakeChain) VersionForRound(r uint64) (*params.YouParams, error) { return f.yp, nil }
func (fakeChain) GetHeader(common.Hash, uint64) *types.Header           { return nil }

var (
	theProc *core.StateProcessor
	theRec  = &convRec{}
)

func processor() *core.StateProcessor {
	if theProc == nil {
		theProc = core.NewStateProcessor(nil, nil)
		staking.NewStaking(nil).Register(theProc) // the real registration path: staking converter at StakingModuleAddress
		theProc.VerifWrapConvertersC17(func(c core.TxConverter) core.TxConverter { return recConv{inner: c, rec: theRec} })
	}
	return theProc
}

// paramsFor returns a private copy of the parameters of a protocol version, with the master address
// replaced by one whose key the harness holds (so that master-signed staking messages can be generated).
func paramsFor(version int) *params.YouParams {
	yp := params.Versions[params.YouVersion(version)]
	yp.MasterAddress = crypto.PubkeyToAddress(masterKey.PublicKey)
	return &yp
}

// ---- a block being built -----------------------------------------------------------------------

type blockEnv struct {
	version int
	yp      *params.YouParams
	cfg     *vm.Config
	db      state.Database
	st      *state.StateDB
	header  *types.Header
	signer  types.Signer
	gp      *core.GasPool
	used    *uint64
	rew     *big.Int
	txIndex int
	pending []string // setup lines not yet committed
	used0   uint64
	rew0    *big.Int
	// roots of the committed pre-state (set by seal)
	root, valRoot, stakingRoot common.Hash
}

func newBlock(version int, gasLimit, used0 uint64, rew0 *big.Int) (*blockEnv, error) {
	initKeys()
	b := &blockEnv{version: version}
	b.yp = paramsFor(version)
	b.cfg = core.CombineVMConfig(b.yp, vm.LocalConfig{})
	b.db = state.NewDatabase(youdb.NewMemDatabase())
	st, err := state.New(common.Hash{}, common.Hash{}, common.Hash{}, b.db)
	if err != nil {
		return nil, err
	}
	for _, c := range contracts {
		if len(c.code) > 0 {
			st.SetCode(c.addr, c.code)
			if c.slot0 != 0 {
				st.SetState(c.addr, common.Hash{}, common.BigToHash(big.NewInt(c.slot0)))
			}
		}
	}
	b.st = st
	b.header = &types.Header{Number: big.NewInt(10), GasLimit: gasLimit, GasRewards: new(big.Int), Coinbase: coinbase, Time: 1600000000}
	b.signer = types.MakeSigner(b.header.Number)
	gp := core.GasPool(gasLimit)
	b.gp = &gp
	u := used0
	b.used = &u
	b.rew = new(big.Int).Set(rew0)
	b.used0, b.rew0 = used0, new(big.Int).Set(rew0)
	return b, nil
}

// seal commits the prepared accounts/validators so that the block starts from committed state
// (SSTORE gas metering looks at committed values).
func (b *blockEnv) seal() error {
	b.st.Finalise(true)
	root, valRoot, stakingRoot, err := b.st.Commit(true)
	if err != nil {
		return err
	}
	st, err := state.New(root, valRoot, stakingRoot, b.db)
	if err != nil {
		return err
	}
	b.st = st
	b.root, b.valRoot, b.stakingRoot = root, valRoot, stakingRoot
	return nil
}

func (b *blockEnv) roots() string {
	c := b.st.Copy()
	r1, r2, r3 := c.IntermediateRoot(true)
	return r1.Hex() + r2.Hex() + r3.Hex()
}

// ---- error classes (shared vocabulary with the Lean driver) --------------------------------------

func classOf(err error) string {
	switch {
	case err == nil:
		return "ok"
	case err == core.ErrNonceTooHigh:
		return "nonce-high"
	case err == core.ErrNonceTooLow:
		return "nonce-low"
	case err == core.ErrGasLimitReached:
		return "pool"
	case err == vm.ErrOutOfGas:
		return "intrinsic"
	case err == vm.ErrInsufficientBalance:
		return "no-value-money"
	case err == types.ErrInvalidSig:
		return "badsig"
	case err == types.ErrInvalidNetworkId:
		return "badnet"
	case err == types.ErrNotProtected:
		return "notprotected"
	case err.Error() == "insufficient balance to pay for gas":
		return "no-gas-money"
	case strings.HasPrefix(err.Error(), "panic:"):
		return "crash"
	}
	return "other"
}

func isUpFront(class string) bool {
	switch class {
	case "nonce-high", "nonce-low", "no-gas-money", "pool", "badsig", "badnet", "notprotected":
		return true
	}
	return false
}

var errPanic = errors.New("panic")

// intrinsic gas, computed independently of the code under test (for the oracle)
func oracleIntrinsic(to *common.Address, data []byte) uint64 {
	g := uint64(21000)
	if to == nil {
		g = 53000
	} else if *to == params.StakingModuleAddress {
		g = 100000
	}
	for _, b := range data {
		if b == 0 {
			g += 4
		} else {
			g += 16
		}
	}
	return g
}
