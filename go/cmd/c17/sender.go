package main

// Part 1: authenticity. Signing preimage / hash and types.Sender, real code vs Lean model, and the
// implementation-level oracle "every single-field mutation of a signed transaction (and the network id,
// and the high-s twin) changes the sender or is rejected".

import (
	"bytes"
	"fmt"
	"math/big"
	"strings"

	"github.com/youchainhq/go-youchain/common"
	"github.com/youchainhq/go-youchain/core/types"
	"github.com/youchainhq/go-youchain/crypto"
	"github.com/youchainhq/go-youchain/rlp"

	"verifharness/internal/vh"
)

type rawTx struct {
	Nonce uint64
	Price *big.Int
	Gas   uint64
	To    *common.Address `rlp:"nil"`
	Value *big.Int
	Data  []byte
	V     *big.Int
	R     *big.Int
	S     *big.Int
}

func (r rawTx) clone() rawTx {
	c := r
	c.Price, c.Value = new(big.Int).Set(r.Price), new(big.Int).Set(r.Value)
	c.V, c.R, c.S = new(big.Int).Set(r.V), new(big.Int).Set(r.R), new(big.Int).Set(r.S)
	c.Data = append([]byte{}, r.Data...)
	if r.To != nil {
		a := *r.To
		c.To = &a
	}
	return c
}

// toTx builds a fresh *types.Transaction (no cached sender) with exactly these nine values, through the wire decoder.
func (r rawTx) toTx() (*types.Transaction, error) {
	enc, err := rlp.EncodeToBytes(&r)
	if err != nil {
		return nil, err
	}
	var tx types.Transaction
	if err := rlp.DecodeBytes(enc, &tx); err != nil {
		return nil, err
	}
	return &tx, nil
}

func hexOrDash(b []byte) string {
	if len(b) == 0 {
		return "-"
	}
	return common.Bytes2Hex(b)
}

func (r rawTx) fieldsText() string {
	to := "-"
	if r.To != nil {
		to = common.Bytes2Hex(r.To.Bytes())
	}
	return fmt.Sprintf("%d %s %d %s %s %s", r.Nonce, r.Price, r.Gas, to, r.Value, hexOrDash(r.Data))
}
func (r rawTx) text() string { return fmt.Sprintf("%s %s %s %s", r.fieldsText(), r.V, r.R, r.S) }

func parseBig(s string) (*big.Int, bool) { return new(big.Int).SetString(s, 10) }

func parseRaw(f []string) (rawTx, error) {
	var r rawTx
	if len(f) < 9 {
		return r, fmt.Errorf("short tx text")
	}
	var ok [6]bool
	var n, g *big.Int
	n, ok[0] = parseBig(f[0])
	r.Price, ok[1] = parseBig(f[1])
	g, ok[2] = parseBig(f[2])
	r.Value, ok[3] = parseBig(f[4])
	r.V, ok[4] = parseBig(f[6])
	r.R, ok[5] = parseBig(f[7])
	var okS bool
	r.S, okS = parseBig(f[8])
	for _, o := range ok {
		if !o {
			return r, fmt.Errorf("bad number in tx text")
		}
	}
	if !okS || !n.IsUint64() || !g.IsUint64() {
		return r, fmt.Errorf("bad number in tx text")
	}
	r.Nonce, r.Gas = n.Uint64(), g.Uint64()
	if f[3] != "-" {
		a := common.BytesToAddress(common.Hex2Bytes(f[3]))
		r.To = &a
	}
	if f[5] != "-" {
		r.Data = common.Hex2Bytes(f[5])
	}
	return r, nil
}

type senderObs struct {
	class string // ok | notprotected | badnet | badsig | other | crash
	addr  common.Address
	hash  common.Hash
}

func goSender(netID uint64, r rawTx) (o senderObs) {
	defer func() {
		if p := recover(); p != nil {
			o = senderObs{class: "crash"}
		}
	}()
	tx, err := r.toTx()
	if err != nil {
		return senderObs{class: "undecodable"}
	}
	signer := types.NewYouSigner(netID)
	o.hash = signer.Hash(tx)
	a, err := types.Sender(signer, tx)
	o.class = classOf(err)
	o.addr = a
	return o
}

// ownRecover evaluates the abstract `recover` of the model with the real library: Ecrecover + Keccak/truncate.
func ownRecover(hash []byte, r, s *big.Int, v byte) (common.Address, bool) {
	if r.BitLen() > 256 || s.BitLen() > 256 {
		return common.Address{}, false
	}
	sig := make([]byte, 65)
	rb, sb := r.Bytes(), s.Bytes()
	copy(sig[32-len(rb):32], rb)
	copy(sig[64-len(sb):64], sb)
	sig[64] = v
	pub, err := crypto.Ecrecover(hash, sig)
	if err != nil || len(pub) == 0 || pub[0] != 4 {
		return common.Address{}, false
	}
	var a common.Address
	copy(a[:], crypto.Keccak256(pub[1:])[12:])
	return a, true
}

// checkSender runs one (network id, tx) through Go and Lean and compares. Returns the Go observation and
// a description of a disagreement ("" if none).
func checkSender(drv *vh.Driver, netID uint64, r rawTx) (senderObs, string) {
	g := goSender(netID, r)
	if drv == nil || g.class == "undecodable" {
		return g, ""
	}
	ans, err := drv.Ask(fmt.Sprintf("SENDER %d %s", netID, r.text()))
	if err != nil {
		return g, "driver: " + err.Error()
	}
	f := strings.Fields(ans)
	if len(f) == 0 {
		return g, "driver: empty answer"
	}
	switch f[0] {
	case "notprotected", "badnet", "badsig":
		if g.class != f[0] {
			return g, fmt.Sprintf("Sender: go=%s lean=%s", g.class, ans)
		}
	case "recover":
		if len(f) != 3 {
			return g, "driver: " + ans
		}
		if f[1] != common.Bytes2Hex(g.hash[:]) {
			return g, fmt.Sprintf("signing hash: go=%x lean=%s", g.hash, f[1])
		}
		var vb byte
		if f[2] == "1" {
			vb = 1
		}
		a, ok := ownRecover(g.hash[:], r.R, r.S, vb)
		if ok {
			if g.class != "ok" || g.addr != a {
				return g, fmt.Sprintf("Sender: model reaches recovery with v=%s giving %x, go=%s %x", f[2], a, g.class, g.addr)
			}
		} else if g.class == "ok" {
			return g, fmt.Sprintf("Sender: model's recovery fails, go=ok %x", g.addr)
		}
	default:
		return g, "driver: " + ans
	}
	return g, ""
}

func checkHash(drv *vh.Driver, netID uint64, r rawTx) string {
	if drv == nil {
		return ""
	}
	tx, err := r.toTx()
	if err != nil {
		return ""
	}
	h := types.NewYouSigner(netID).Hash(tx)
	ans, err := drv.Ask(fmt.Sprintf("HASH %d %s", netID, r.fieldsText()))
	if err != nil {
		return "driver: " + err.Error()
	}
	if ans != common.Bytes2Hex(h[:]) {
		return fmt.Sprintf("signing hash: go=%x lean=%s", h, ans)
	}
	return ""
}

// ---- generators -----------------------------------------------------------------------------------

func genBig(r *vh.RNG) *big.Int {
	switch r.Intn(8) {
	case 0:
		return new(big.Int)
	case 1:
		return big.NewInt(int64(r.Intn(256)))
	case 2:
		return new(big.Int).SetBytes(r.Bytes(r.Range(1, 32)))
	case 3:
		return new(big.Int).Lsh(big.NewInt(1), uint(r.Intn(257)))
	case 4:
		return big.NewInt(int64(127 + r.Intn(3)))
	default:
		return new(big.Int).SetUint64(r.U64() >> uint(r.Intn(64)))
	}
}

func genU64(r *vh.RNG) uint64 {
	switch r.Intn(6) {
	case 0:
		return 0
	case 1:
		return ^uint64(0) - uint64(r.Intn(2))
	case 2:
		return uint64(r.Intn(300))
	default:
		return r.U64() >> uint(r.Intn(64))
	}
}

func genData(r *vh.RNG) []byte {
	switch r.Intn(9) {
	case 0:
		return nil
	case 1:
		return []byte{byte(r.Intn(256))}
	case 2:
		return []byte{0x00}
	case 3:
		return []byte{0x7f + byte(r.Intn(3))}
	case 4:
		return r.Bytes(55 + r.Intn(3))
	case 5:
		return r.Bytes(250 + r.Intn(12))
	case 6:
		return make([]byte, r.Range(1, 70))
	case 7:
		return r.Bytes(r.Range(300, 1200))
	default:
		return r.Bytes(r.Range(2, 54))
	}
}

func genTo(r *vh.RNG) *common.Address {
	switch r.Intn(6) {
	case 0:
		return nil
	case 1:
		a := common.Address{}
		return &a
	case 2:
		a := common.BytesToAddress(r.Bytes(r.Range(1, 19))) // leading zero bytes
		return &a
	default:
		a := common.BytesToAddress(r.Bytes(20))
		return &a
	}
}

var netIDs = []uint64{99, 99, 99, 1, 2, 98, 100, 1 << 31, 1<<63 - 18, 1<<63 - 17, 1<<63 + 5, ^uint64(0)}

func genFields(r *vh.RNG) rawTx {
	return rawTx{Nonce: genU64(r), Price: genBig(r), Gas: genU64(r), To: genTo(r), Value: genBig(r), Data: genData(r),
		V: new(big.Int), R: new(big.Int), S: new(big.Int)}
}

func signRaw(netID uint64, r rawTx, keyIdx int) (rawTx, error) {
	tx, err := r.toTx()
	if err != nil {
		return r, err
	}
	stx, err := types.SignTx(tx, types.NewYouSigner(netID), keys[keyIdx])
	if err != nil {
		return r, err
	}
	v, rr, s := stx.RawSignatureValues()
	c := r.clone()
	c.V, c.R, c.S = new(big.Int).Set(v), new(big.Int).Set(rr), new(big.Int).Set(s)
	return c, nil
}

type mutant struct {
	kind  string
	netID uint64
	tx    rawTx
}

func mutants(r *vh.RNG, netID uint64, o rawTx) []mutant {
	var ms []mutant
	add := func(kind string, f func(c *rawTx)) {
		c := o.clone()
		f(&c)
		if c.text() != o.text() {
			ms = append(ms, mutant{kind, netID, c})
		}
	}
	one := big.NewInt(1)
	add("nonce+1", func(c *rawTx) { c.Nonce++ })
	add("nonce-1", func(c *rawTx) { c.Nonce-- })
	add("nonce-bit", func(c *rawTx) { c.Nonce ^= 1 << uint(r.Intn(64)) })
	add("price+1", func(c *rawTx) { c.Price.Add(c.Price, one) })
	add("price*256", func(c *rawTx) { c.Price.Lsh(c.Price, 8) })
	add("price=0", func(c *rawTx) { c.Price.SetInt64(0) })
	add("gas+1", func(c *rawTx) { c.Gas++ })
	add("gas-bit", func(c *rawTx) { c.Gas ^= 1 << uint(r.Intn(64)) })
	add("to-nil-swap", func(c *rawTx) {
		if c.To == nil {
			a := common.Address{}
			c.To = &a
		} else {
			c.To = nil
		}
	})
	add("to-byte", func(c *rawTx) {
		if c.To == nil {
			a := common.BytesToAddress(r.Bytes(20))
			c.To = &a
		} else {
			c.To[r.Intn(20)] ^= 1 << uint(r.Intn(8))
		}
	})
	add("to-shift", func(c *rawTx) { // the same non-zero bytes at another offset
		if c.To != nil {
			var a common.Address
			copy(a[:19], c.To[1:])
			c.To = &a
		}
	})
	add("value+1", func(c *rawTx) { c.Value.Add(c.Value, one) })
	add("value*256", func(c *rawTx) { c.Value.Lsh(c.Value, 8) })
	add("value=0", func(c *rawTx) { c.Value.SetInt64(0) })
	add("data-bit", func(c *rawTx) {
		if len(c.Data) > 0 {
			c.Data[r.Intn(len(c.Data))] ^= 1 << uint(r.Intn(8))
		} else {
			c.Data = []byte{0}
		}
	})
	add("data-append0", func(c *rawTx) { c.Data = append(c.Data, 0) })
	add("data-prepend0", func(c *rawTx) { c.Data = append([]byte{0}, c.Data...) })
	add("data-droplast", func(c *rawTx) {
		if len(c.Data) > 0 {
			c.Data = c.Data[:len(c.Data)-1]
		}
	})
	add("data-to-value", func(c *rawTx) { // move the boundary between two adjacent fields
		if len(c.Data) > 0 {
			c.Value.Lsh(c.Value, 8)
			c.Value.Add(c.Value, big.NewInt(int64(c.Data[0])))
			c.Data = c.Data[1:]
		}
	})
	add("swap-price-value", func(c *rawTx) { c.Price, c.Value = c.Value, c.Price })
	add("swap-nonce-gas", func(c *rawTx) { c.Nonce, c.Gas = c.Gas, c.Nonce })
	// signature values
	add("v+1", func(c *rawTx) { c.V.Add(c.V, one) })
	add("v-1", func(c *rawTx) { c.V.Sub(c.V, one) })
	add("v+2", func(c *rawTx) { c.V.Add(c.V, big.NewInt(2)) })
	add("v=27", func(c *rawTx) { c.V.SetInt64(27 + int64(r.Intn(2))) })
	add("v=0", func(c *rawTx) { c.V.SetInt64(int64(r.Intn(2))) })
	add("r+1", func(c *rawTx) { c.R.Add(c.R, one) })
	add("s+1", func(c *rawTx) { c.S.Add(c.S, one) })
	add("r<->s", func(c *rawTx) { c.R, c.S = c.S, c.R })
	add("high-s-twin", func(c *rawTx) { // (r, N-s, v^1) verifies under the same key in plain ECDSA
		c.S.Sub(secpN, c.S)
		par := new(big.Int).Sub(c.V, big.NewInt(35))
		if par.Bit(0) == 0 {
			c.V.Add(c.V, one)
		} else {
			c.V.Sub(c.V, one)
		}
	})
	add("high-s-same-v", func(c *rawTx) { c.S.Sub(secpN, c.S) })
	add("s+N", func(c *rawTx) { c.S.Add(c.S, secpN) })
	add("r+N", func(c *rawTx) { c.R.Add(c.R, secpN) })
	// network id: the same bytes presented to a signer of another network
	for _, n2 := range []uint64{netID + 1, netID - 1, netID ^ (1 << uint(r.Intn(64))), netIDs[r.Intn(len(netIDs))]} {
		if n2 != netID {
			ms = append(ms, mutant{"network-id", n2, o.clone()})
		}
	}
	return ms
}

func pairLine(n1 uint64, a rawTx, n2 uint64, b rawTx) string {
	return fmt.Sprintf("P %d %s | %d %s", n1, a.text(), n2, b.text())
}

// senderCacheOracle: types.Sender caches the derived address on the transaction object; presenting the SAME object
// to the signer of another network must still be rejected, and the cached answer for the right network must stay.
func senderCacheOracle(netID uint64, r rawTx, keyIdx int) (what string) {
	defer func() {
		if p := recover(); p != nil {
			what = fmt.Sprintf("types.Sender panicked: %v", p)
		}
	}()
	tx, err := r.toTx()
	if err != nil {
		return ""
	}
	s1, s2 := types.NewYouSigner(netID), types.NewYouSigner(netID+1)
	a1, e1 := types.Sender(s1, tx)
	if e1 != nil || a1 != addrs[keyIdx] {
		return ""
	}
	if a2, e2 := types.Sender(s2, tx); e2 == nil {
		return fmt.Sprintf("sender cache: a transaction authenticated for network %d is accepted as %x by the signer of network %d", netID, a2, netID+1)
	}
	if a3, e3 := types.Sender(s1, tx); e3 != nil || a3 != a1 {
		return "sender cache: the answer for the right network changed after asking another signer"
	}
	return ""
}

// jsonAndVerifyOracle: the web3 JSON form of a signed transaction decodes to the same transaction (same hash, same
// sender); crypto.VerifySignature accepts the signature under the signer's key and rejects its high-s twin; the JSON
// decoder's own V/R/S validation never lets through something types.Sender would authenticate differently.
func jsonAndVerifyOracle(netID uint64, r rawTx, keyIdx int) (what string) {
	defer func() {
		if p := recover(); p != nil {
			what = fmt.Sprintf("panic in JSON / VerifySignature path: %v", p)
		}
	}()
	if netID > 1<<62 || r.Price.BitLen() > 256 || r.Value.BitLen() > 256 {
		// outside the JSON codec's domain (hexutil.Big is limited to 256 bits; UnmarshalJSON computes
		// byte(V - 35 - 2*networkId) in uint64): not part of the property
		return ""
	}
	tx, err := r.toTx()
	if err != nil {
		return ""
	}
	signer := types.NewYouSigner(netID)
	js, err := tx.MarshalJSON()
	if err != nil {
		return "MarshalJSON of a signed transaction failed: " + err.Error()
	}
	var back types.Transaction
	if err := back.UnmarshalJSON(js); err != nil {
		return "UnmarshalJSON rejects a correctly signed transaction: " + err.Error()
	}
	a1, e1 := types.Sender(signer, tx)
	a2, e2 := types.Sender(signer, &back)
	if back.Hash() != tx.Hash() || (e1 == nil) != (e2 == nil) || a1 != a2 {
		return "JSON round trip changes the transaction or its sender"
	}
	h := signer.Hash(tx)
	sig := make([]byte, 64)
	rb, sb := r.R.Bytes(), r.S.Bytes()
	copy(sig[32-len(rb):32], rb)
	copy(sig[64-len(sb):64], sb)
	pub := crypto.CompressPubkey(&keys[keyIdx].PublicKey)
	if !crypto.VerifySignature(pub, h[:], sig) {
		return "VerifySignature rejects the signature under the signing key"
	}
	hs := new(big.Int).Sub(secpN, r.S).Bytes()
	twin := append(append([]byte{}, sig[:32]...), make([]byte, 32)...)
	copy(twin[64-len(hs):], hs)
	if crypto.VerifySignature(pub, h[:], twin) {
		return "VerifySignature accepts the high-s twin of a signature"
	}
	return ""
}

type pairFail struct{ kind, what string }

// evalPair: orig must recover a sender; the mutant must be rejected or recover a different one.
// Correspondence (Go vs Lean on both transactions) and the oracle (on Go's behaviour alone) are evaluated independently.
func evalPair(drv *vh.Driver, n1 uint64, a rawTx, n2 uint64, b rawTx) ([]pairFail, senderObs, senderObs) {
	var fs []pairFail
	ga, d := checkSender(drv, n1, a)
	if d != "" {
		fs = append(fs, pairFail{"correspondence", d})
	}
	gb, d := checkSender(drv, n2, b)
	if d != "" {
		fs = append(fs, pairFail{"correspondence", d})
	}
	if ga.class == "crash" || gb.class == "crash" {
		fs = append(fs, pairFail{"oracle", "types.Sender panicked"})
	}
	if ga.class == "ok" && gb.class == "ok" && ga.addr == gb.addr && (n1 != n2 || a.text() != b.text()) {
		fs = append(fs, pairFail{"oracle", fmt.Sprintf("a changed transaction / network id still authenticates as the same sender %x", ga.addr)})
	}
	return fs, ga, gb
}

// failClass: what a failure is about, without the case-specific values (for de-duplication of reports)
func failClass(kind, what string) string {
	if i := strings.Index(what, ": "); i > 0 && i < 60 {
		what = what[:i]
	} else if len(what) > 40 {
		what = what[:40]
	}
	return kind + "|" + what
}

func runSenderPart(c *vh.Ctx, drv *vh.Driver) error {
	res := c.Res
	nCases := c.N(1500, 20000)
	if c.Search {
		nCases *= 3
	}
	failOnce := map[string]bool{}
	report := func(kind, what, name string, lines []string) {
		if failOnce[failClass(kind, what)] || len(failOnce) >= 12 {
			return
		}
		failOnce[failClass(kind, what)] = true
		rp := vh.WriteReplay(c.ReplayDir, "C17", name, c.Seed, []string{kind + ": " + what}, lines)
		res.Fail(kind, "", what, rp)
	}
	for i := 0; i < nCases; i++ {
		netID := netIDs[c.R.Intn(len(netIDs))]
		f := genFields(c.R)
		keyIdx := c.R.Intn(nKeys)
		if d := checkHash(drv, netID, f); d != "" {
			report("correspondence", d, fmt.Sprintf("hash-%d", i), []string{fmt.Sprintf("S %d %s", netID, f.text())})
		}
		res.TracesVsImpl++
		o, err := signRaw(netID, f, keyIdx)
		if err != nil {
			res.Dist("sender:sign-error")
			continue
		}
		g, d := checkSender(drv, netID, o)
		res.TracesVsImpl++
		if d != "" {
			report("correspondence", d, fmt.Sprintf("sender-%d", i), []string{fmt.Sprintf("S %d %s", netID, o.text())})
		}
		if g.class != "ok" || g.addr != addrs[keyIdx] {
			report("oracle", fmt.Sprintf("a transaction signed by key %d for network %d authenticates as %s %x", keyIdx, netID, g.class, g.addr),
				fmt.Sprintf("signed-%d", i), []string{fmt.Sprintf("S %d %s", netID, o.text())})
		}
		if w := jsonAndVerifyOracle(netID, o, keyIdx); w != "" {
			report("oracle", w, fmt.Sprintf("json-%d", i), []string{fmt.Sprintf("S %d %s", netID, o.text())})
		}
		if w := senderCacheOracle(netID, o, keyIdx); w != "" {
			report("oracle", w, fmt.Sprintf("cache-%d", i), []string{fmt.Sprintf("S %d %s", netID, o.text())})
		}
		res.Count("S|"+fmt.Sprint(netID)+"|"+o.text(), true)
		res.Dist("sender:signed-ok")
		if i < 1 {
			res.Sample(map[string]interface{}{"kind": "signed tx", "network": netID, "tx": o.text(), "sender": g.addr.Hex()})
		}
		for _, m := range mutants(c.R, netID, o) {
			pfs, _, gb := evalPair(drv, netID, o, m.netID, m.tx)
			res.TracesVsImpl++
			res.Count("P|"+pairLine(netID, o, m.netID, m.tx), true)
			res.Dist("mutant:" + m.kind + ":" + gb.class)
			for _, pf := range pfs {
				report(pf.kind, "mutation "+m.kind+": "+pf.what, fmt.Sprintf("mutant-%d-%s-%s", i, m.kind, pf.kind), []string{pairLine(netID, o, m.netID, m.tx)})
			}
		}
	}
	// malformed stream: arbitrary V, R, S
	nMal := c.N(6000, 60000)
	for i := 0; i < nMal; i++ {
		netID := netIDs[c.R.Intn(len(netIDs))]
		f := genFields(c.R)
		base := new(big.Int).Add(big.NewInt(35), new(big.Int).Mul(big.NewInt(2), new(big.Int).SetUint64(netID)))
		switch c.R.Intn(6) {
		case 0:
			f.V = big.NewInt(int64(c.R.Intn(40)))
		case 1:
			f.V = new(big.Int).Add(base, big.NewInt(int64(c.R.Intn(7))-3))
		case 2:
			f.V = genBig(c.R)
		case 3:
			f.V = new(big.Int).Add(base, big.NewInt(int64(c.R.Intn(600))-300))
		default:
			f.V = new(big.Int).Add(base, big.NewInt(int64(c.R.Intn(2))))
		}
		pick := func() *big.Int {
			half := new(big.Int).Rsh(secpN, 1)
			switch c.R.Intn(9) {
			case 0:
				return new(big.Int)
			case 1:
				return new(big.Int).Set(secpN)
			case 2:
				return new(big.Int).Sub(secpN, big.NewInt(1))
			case 3:
				return half
			case 4:
				return new(big.Int).Add(half, big.NewInt(1))
			case 5:
				return big.NewInt(1)
			default:
				return new(big.Int).SetBytes(c.R.Bytes(32))
			}
		}
		f.R, f.S = pick(), pick()
		if f.V.Sign() < 0 {
			f.V.Neg(f.V) // values off the wire are never negative
		}
		g, d := checkSender(drv, netID, f)
		res.TracesVsImpl++
		res.Count("S|"+fmt.Sprint(netID)+"|"+f.text(), g.class == "ok" || g.class == "badsig")
		res.Dist("malformed-sig:" + g.class)
		if d != "" {
			report("correspondence", d, fmt.Sprintf("malsig-%d", i), []string{fmt.Sprintf("S %d %s", netID, f.text())})
		}
		if g.class == "crash" {
			report("oracle", "types.Sender panicked", fmt.Sprintf("malsig-crash-%d", i), []string{fmt.Sprintf("S %d %s", netID, f.text())})
		}
	}
	return nil
}

// replaySenderLine re-evaluates an S or P line. Returns (fails, what).
func replaySenderLine(drv *vh.Driver, line string) (bool, string) {
	f := strings.Fields(line)
	switch f[0] {
	case "S":
		n, ok := parseBig(f[1])
		r, err := parseRaw(f[2:])
		if !ok || err != nil {
			return false, "unparsable S line"
		}
		if d := checkHash(drv, n.Uint64(), r); d != "" {
			return true, d
		}
		g, d := checkSender(drv, n.Uint64(), r)
		if d != "" {
			return true, d
		}
		if g.class == "crash" {
			return true, "types.Sender panicked"
		}
		return false, "sender: " + g.class
	case "P":
		i := 0
		for i < len(f) && f[i] != "|" {
			i++
		}
		if i >= len(f)-2 {
			return false, "unparsable P line"
		}
		n1, ok1 := parseBig(f[1])
		a, e1 := parseRaw(f[2:i])
		n2, ok2 := parseBig(f[i+1])
		b, e2 := parseRaw(f[i+2:])
		if !ok1 || !ok2 || e1 != nil || e2 != nil {
			return false, "unparsable P line"
		}
		pfs, _, _ := evalPair(drv, n1.Uint64(), a, n2.Uint64(), b)
		var msgs []string
		for _, pf := range pfs {
			msgs = append(msgs, pf.kind+": "+pf.what)
		}
		return len(pfs) > 0, strings.Join(msgs, "; ")
	}
	return false, ""
}

var _ = bytes.Equal
