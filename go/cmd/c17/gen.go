package main

// Seeded generator of block scripts: mostly valid transactions of every kind the property quantifies over
// (transfers, contract calls, creations, staking-module messages valid and invalid), plus a fault stream
// (wrong nonces, unaffordable gas, gas below intrinsic, value above balance, gas-pool exhaustion, bad signatures).

import (
	"fmt"
	"math/big"

	"github.com/youchainhq/go-youchain/common"
	"github.com/youchainhq/go-youchain/params"
	"github.com/youchainhq/go-youchain/rlp"
	"github.com/youchainhq/go-youchain/staking"

	"verifharness/internal/vh"
)

type blockGen struct {
	r       *vh.RNG
	e       *executor
	script  []string
	version int
	funded  []int
	vals    []int       // indexes of pre-existing validators
	valOp   map[int]int // validator index -> operator key
	nextVal int
	dist    map[string]int
	// candidate mode (worker loop): C lines with per-key running nonces instead of T lines
	cand      bool
	candNonce map[int]uint64
	occ       map[int]map[uint64]bool // key -> nonces whose creation address is pre-occupied
	rich      []int                   // keys holding >= 100 000 YOU
	nearMax   map[int]int64           // validator index -> headroom (YOU) below MaxStakes[role] (validators set up close to the ceiling)
}

func (g *blockGen) emit(format string, a ...interface{}) bool {
	l := fmt.Sprintf(format, a...)
	g.script = append(g.script, l)
	g.e.lineIdx = len(g.script) - 1
	return g.e.step(l)
}

func pickPrice(r *vh.RNG) *big.Int {
	switch r.Intn(7) {
	case 0:
		return new(big.Int)
	case 1:
		return big.NewInt(1)
	case 2, 3:
		return big.NewInt(1000)
	case 4:
		return big.NewInt(1e9)
	default:
		return big.NewInt(int64(r.Intn(1e6)) * int64(1+r.Intn(1e6)))
	}
}

func (g *blockGen) setup() bool {
	r := g.r
	g.version = []int{5, 5, 5, 5, 5, 5, 4, 4, 3, 3, 2, 1}[r.Intn(12)]
	gasLimit := uint64(8000000)
	switch r.Intn(10) {
	case 0, 1:
		gasLimit = uint64(r.Range(30000, 600000))
	case 2:
		gasLimit = 1 << 62
	}
	used0, rew0 := uint64(0), new(big.Int)
	if r.Chance(20) && !g.cand {
		used0 = uint64(r.Intn(5000000))
		rew0 = new(big.Int).Mul(big.NewInt(int64(used0)), pickPrice(r))
	}
	if !g.emit("B %d %d %d %s", g.version, gasLimit, used0, rew0) {
		return false
	}
	for k := 0; k < nKeys; k++ {
		if !r.Chance(70) {
			continue
		}
		var bal *big.Int
		switch r.Intn(12) {
		case 0, 1, 2, 3, 4:
			bal = you(1000000)
		case 5, 6:
			bal = you(1)
		case 7:
			bal = big.NewInt(int64(r.Intn(3e9)))
		case 8:
			bal = new(big.Int).Mul(big.NewInt(int64(21000+r.Intn(100000))), big.NewInt(1000))
		default:
			bal = you(int64(r.Range(400, 3000)))
		}
		nonce := uint64(0)
		switch r.Intn(4) {
		case 0:
			nonce = uint64(r.Intn(50))
		case 1:
			nonce = 1<<40 + uint64(r.Intn(1000))
		}
		g.emit("A %d %d %s", k, nonce, bal)
		if bal.Sign() > 0 {
			g.funded = append(g.funded, k)
		}
		if bal.Cmp(you(100000)) >= 0 {
			g.rich = append(g.rich, k)
		}
		if r.Chance(30) { // a creation by this key at one of its first nonces collides with an existing account / contract
			n := nonce + uint64(r.Intn(3))
			g.emit("OCC %d %d %s", k, n, []string{"n", "c"}[r.Intn(2)])
			if g.occ == nil {
				g.occ = map[int]map[uint64]bool{}
			}
			if g.occ[k] == nil {
				g.occ[k] = map[uint64]bool{}
			}
			g.occ[k][n] = true
		}
	}
	if len(g.funded) == 0 {
		g.emit("A 0 0 %s", you(1000000))
		g.funded = append(g.funded, 0)
	}
	nv := r.Range(1, 3)
	for i := 0; i < nv; i++ {
		op := g.funded[r.Intn(len(g.funded))]
		role := r.Range(1, 3)
		token := r.Range(600, 5000)
		if len(g.rich) > 0 && r.Chance(40) {
			// a validator just below its stake ceiling, operated by a rich key: an affordable deposit / delegation is then
			// refused by the ceiling check, which comes AFTER the balance check in the handlers
			op = g.rich[r.Intn(len(g.rich))]
			headroom := r.Intn(300)
			token = int(paramsFor(g.version).MaxStakes[params.ValidatorRole(role)]) - headroom
			if g.nearMax == nil {
				g.nearMax = map[int]int64{}
			}
			g.nearMax[i] = int64(headroom)
		}
		g.emit("VAL %d %d %d %d %d %d", op, i, role, token, []int{1, 1, 1, 0}[r.Intn(4)], r.Intn(2))
		g.vals = append(g.vals, i)
		g.valOp[i] = op
	}
	g.nextVal = 10
	return true
}

func (g *blockGen) stakingData(key int, nonce uint64) ([]byte, string) {
	r := g.r
	from := addrs[key]
	sign := func(m staking.Msg) []byte {
		s, _ := staking.MakeSign(m, masterKey)
		return s
	}
	enc := func(a staking.ActionType, m interface{}) []byte {
		p, err := rlp.EncodeToBytes(m)
		if err != nil {
			return nil
		}
		d, _ := rlp.EncodeToBytes(&staking.Message{Action: a, Payload: p})
		return d
	}
	pickVal := func() (int, bool) {
		if len(g.vals) == 0 || r.Chance(10) {
			return 99, false
		}
		// prefer a validator this key operates
		for tries := 0; tries < 4; tries++ {
			v := g.vals[r.Intn(len(g.vals))]
			if g.valOp[v] == key {
				return v, true
			}
		}
		return g.vals[r.Intn(len(g.vals))], true
	}
	switch r.Intn(8) {
	case 0, 1:
		vi := g.nextVal
		g.nextVal++
		if r.Chance(10) && len(g.vals) > 0 {
			vi = g.vals[0] // already exists
		}
		op := from
		if r.Chance(8) {
			op = addrs[(key+1)%nKeys]
		}
		val := you(int64(r.Range(500, 3000)))
		if r.Chance(10) {
			val = you(int64(r.Intn(500)))
		}
		m := &staking.TxCreateValidator{Name: "v", OperatorAddress: op, Coinbase: from, MainPubKey: valKey(vi), BlsPubKey: []byte{9, 9, 9},
			Value: val, Nonce: nonce, CommissionRate: 1000, AcceptDelegation: 1, Role: params.ValidatorRole(r.Range(1, 3))}
		if g.version < 5 || r.Chance(50) {
			m.Sign = sign(m)
		}
		return enc(staking.ValidatorCreate, m), "create"
	case 2:
		vi, _ := pickVal()
		val := int64(r.Range(1, 800))
		if h, ok := g.nearMax[vi]; ok && r.Chance(60) {
			val = h + int64(r.Range(0, 2)) // at / just above the ceiling
			if val <= 0 {
				val = 1
			}
		}
		m := &staking.TxValidatorDeposit{MainAddress: valAddr(vi), Value: you(val), Nonce: nonce}
		m.Sign = sign(m)
		return enc(staking.ValidatorDeposit, m), "deposit"
	case 3:
		vi, _ := pickVal()
		m := &staking.TxValidatorWithdraw{MainAddress: valAddr(vi), Recipient: from, Value: you(int64(r.Range(1, 800))), Nonce: nonce}
		m.Sign = sign(m)
		return enc(staking.ValidatorWithDraw, m), "withdraw"
	case 4:
		vi, _ := pickVal()
		m := &staking.TxValidatorChangeStatus{MainAddress: valAddr(vi), Status: uint8(r.Intn(2)), Nonce: nonce}
		m.Sign = sign(m)
		return enc(staking.ValidatorChangeStatus, m), "change-status"
	case 5:
		vi, _ := pickVal()
		return enc(staking.ValidatorSettle, &staking.TxValidatorSettle{MainAddress: valAddr(vi)}), "settle"
	case 6:
		vi := 99
		if len(g.vals) > 0 {
			vi = g.vals[r.Intn(len(g.vals))]
		}
		val := int64(r.Range(5, 400))
		if h, ok := g.nearMax[vi]; ok && r.Chance(60) {
			val = h + int64(r.Range(0, 2))
			if val < 10 {
				val = 10 + h
			}
		}
		return enc(staking.DelegationAdd, &staking.TxDelegation{Validator: valAddr(vi), Value: you(val)}), "delegation-add"
	default:
		vi := 99
		if len(g.vals) > 0 {
			vi = g.vals[r.Intn(len(g.vals))]
		}
		return enc(staking.DelegationSub, &staking.TxDelegation{Validator: valAddr(vi), Value: you(int64(r.Range(5, 400)))}), "delegation-sub"
	}
}

func (g *blockGen) badStakingData(key int, nonce uint64) ([]byte, string) {
	r := g.r
	good, _ := g.stakingData(key, nonce)
	switch r.Intn(11) {
	case 0:
		return r.Bytes(r.Range(1, 40)), "random"
	case 1:
		return nil, "empty"
	case 2:
		if len(good) > 2 {
			return good[:r.Range(1, len(good)-1)], "truncated"
		}
		return []byte{0xc0}, "truncated"
	case 3:
		return append(good, byte(r.Intn(256))), "trailing"
	case 4:
		d, _ := rlp.EncodeToBytes(&staking.Message{Action: staking.ActionType([]int{0, 7, 9, 15, 19, 200, 255}[r.Intn(7)]), Payload: r.Bytes(r.Intn(20))})
		return d, "unknown-action"
	case 5:
		d, _ := rlp.EncodeToBytes(&staking.Message{Action: staking.ActionType([]int{1, 2, 3, 4, 5, 6, 16, 17, 18}[r.Intn(9)]), Payload: r.Bytes(r.Intn(30))})
		return d, "garbage-payload"
	case 6:
		return []byte{0xc3, 0x81, 0x01, 0x80}, "noncanonical-action" // 0x81 0x01: single byte < 0x80 with a length prefix
	case 7:
		return []byte{0xc3, 0x01, 0x80, 0x80}, "three-elements"
	case 8:
		return []byte{0xc4, 0x82, 0x00, 0x01, 0x80}, "action-leading-zero"
	case 9:
		return []byte{0xc2, 0x01, 0xc0}, "payload-is-list"
	default:
		return []byte{0xc1, 0x01}, "one-element"
	}
}

// nextTx emits one T line.
func (g *blockGen) nextTx() bool {
	r, b := g.r, g.e.b
	key := g.funded[r.Intn(len(g.funded))]
	if r.Chance(8) {
		key = r.Intn(nKeys)
	}
	from := addrs[key]
	nonce := b.st.GetNonce(from)
	bal := b.st.GetBalance(from)
	price := pickPrice(r)
	value := new(big.Int)
	var to *common.Address
	var data []byte
	kind := ""
	gas := uint64(0)
	extra := func() uint64 { // gas on top of the intrinsic cost
		switch r.Intn(6) {
		case 0:
			return 0
		case 1:
			return uint64(r.Intn(100))
		case 2:
			return uint64(r.Intn(30000))
		default:
			return 100000
		}
	}
	someValue := func() {
		switch r.Intn(5) {
		case 0, 1:
		case 2:
			value = big.NewInt(int64(r.Intn(100000)))
		case 3:
			value = you(int64(r.Intn(3)))
		default:
			value = new(big.Int).Div(bal, big.NewInt(int64(r.Range(2, 50))))
		}
	}
	if g.cand {
		if n, ok := g.candNonce[key]; ok {
			nonce = n
		}
	}
	txKind := r.Weighted([]int{25, 22, 12, 18, 9})
	if txKind == 3 && len(g.nearMax) > 0 && len(g.rich) > 0 && r.Chance(35) {
		// a rich delegator (not necessarily the operator) for the near-ceiling validators
		key = g.rich[r.Intn(len(g.rich))]
		from = addrs[key]
		nonce = b.st.GetNonce(from)
		bal = b.st.GetBalance(from)
		if n, ok := g.candNonce[key]; ok && g.cand {
			nonce = n
		}
	} else if txKind == 3 && len(g.vals) > 0 && r.Chance(60) {
		key = g.valOp[g.vals[r.Intn(len(g.vals))]]
		from = addrs[key]
		nonce = b.st.GetNonce(from)
		bal = b.st.GetBalance(from)
		if n, ok := g.candNonce[key]; ok && g.cand {
			nonce = n
		}
	}
	if g.occ[key][nonce] && r.Chance(70) {
		txKind = 2 // creation onto the occupied address
	}
	switch txKind {
	case 0:
		kind = "transfer"
		var a common.Address
		switch r.Intn(6) {
		case 0:
			a = from
		case 1:
			a = coinbase
		case 2, 3:
			a = addrs[r.Intn(nKeys)]
		default:
			a = eoaAddrs[r.Intn(len(eoaAddrs))]
		}
		to = &a
		someValue()
		if r.Chance(25) {
			data = genData(r)
		}
	case 1:
		c := contracts[r.Intn(len(contracts))]
		kind = "call:" + c.name
		a := c.addr
		to = &a
		if r.Chance(40) {
			someValue()
		}
		if r.Chance(30) {
			data = genData(r)
		}
	case 2:
		i := r.Intn(len(initCodes))
		kind = fmt.Sprintf("create:%d", i)
		if g.occ[key][nonce] {
			kind = "create-collision"
		}
		data = initCodes[i]
		if r.Chance(40) {
			someValue()
		}
	case 3:
		a := params.StakingModuleAddress
		to = &a
		var k string
		data, k = g.stakingData(key, nonce)
		kind = "staking:" + k
		if r.Chance(15) {
			value = big.NewInt(int64(r.Intn(1000))) // ignored by the staking converter
		}
	default:
		a := params.StakingModuleAddress
		to = &a
		var k string
		data, k = g.badStakingData(key, nonce)
		kind = "staking-bad:" + k
	}
	ig := oracleIntrinsic(to, data)
	gas = ig + extra()
	if to != nil && *to == params.StakingModuleAddress && r.Chance(75) {
		gas = ig + 900000 + uint64(r.Intn(3))*50000 // enough for a validator creation under YouV5 (or exactly)
	}
	sig := "ok"
	// ---- fault stream
	if r.Chance(28) {
		limitCost := func() *big.Int { return new(big.Int).Mul(price, new(big.Int).SetUint64(gas)) }
		switch r.Intn(12) {
		case 0:
			if nonce > 0 {
				nonce -= uint64(1 + r.Intn(int(min(nonce, 3))))
			} else {
				nonce++
			}
			kind += "+nonce-low"
		case 1:
			nonce += uint64(1 + r.Intn(3))
			kind += "+nonce-high"
		case 2: // cannot pay for gas: price just above balance / gas
			price = new(big.Int).Add(new(big.Int).Div(bal, new(big.Int).SetUint64(gas)), big.NewInt(1))
			kind += "+unaffordable-gas"
		case 3: // exactly affordable gas, no value
			if bal.Sign() > 0 && gas > 0 {
				price = new(big.Int).Div(bal, new(big.Int).SetUint64(gas))
				value = new(big.Int).Sub(bal, limitCost())
				kind += "+exact-balance"
			}
		case 4:
			gas = ig - 1 - uint64(r.Intn(int(min(ig-1, 3000))))
			kind += "+below-intrinsic"
		case 5:
			gas = ig
			kind += "+exact-intrinsic"
		case 6: // value just above what is left after the gas purchase
			if bal.Cmp(limitCost()) >= 0 {
				value = new(big.Int).Add(new(big.Int).Sub(bal, limitCost()), big.NewInt(1))
				kind += "+value-above-balance"
			}
		case 7:
			value = new(big.Int).Add(bal, big.NewInt(int64(r.Intn(1000))))
			kind += "+value-above-balance"
		case 8: // more gas than the block pool has left
			if b.gp.Gas() > 20000000 {
				break // (a pool this large is never exhausted; a code-running tx with that much gas would not end)
			}
			gas = b.gp.Gas() + 1 + uint64(r.Intn(1000))
			if r.Chance(70) {
				price = big.NewInt(int64(r.Intn(2)))
			}
			kind += "+pool-exhausted"
		case 9:
			if b.gp.Gas() > 20000000 {
				break
			}
			gas = b.gp.Gas() // exactly the pool
			price = big.NewInt(int64(r.Intn(2)))
			kind += "+pool-exact"
		default:
			if !g.cand { // (the pool never hands the worker a transaction with a bad signature)
				sig = []string{"net", "unprot", "highs", "badv"}[r.Intn(4)]
				kind += "+sig-" + sig
			}
		}
	}
	g.dist["tx:"+kind]++
	toS := "-"
	if to != nil {
		toS = fmt.Sprintf("%x", to.Bytes())
	}
	if g.cand {
		// running nonce of this key's candidate list: mostly consecutive, sometimes a duplicate nonce, sometimes a gap
		switch {
		case r.Chance(12):
		case r.Chance(5):
			g.candNonce[key] = nonce + 2
		default:
			g.candNonce[key] = nonce + 1
		}
		line := fmt.Sprintf("C %d %d %s %d %s %s %s", key, nonce, price, gas, toS, value, hexOrDash(data))
		ok := g.emit("%s", line)
		if r.Chance(6) {
			ok = g.emit("%s", line) // the very same transaction offered twice
		}
		return ok
	}
	mode := "P"
	if r.Chance(50) {
		mode = "W"
	}
	return g.emit("T %s %d %s %d %s %d %s %s %s", mode, key, sig, nonce, price, gas, toS, value, hexOrDash(data))
}

// genWorkerBlock generates a candidate set and runs the worker loop + import on it.
func genWorkerBlock(r *vh.RNG, drv *vh.Driver) (script []string, e *executor, dist map[string]int) {
	g := &blockGen{r: r, e: newExecutor(drv), valOp: map[int]int{}, dist: map[string]int{}, cand: true, candNonce: map[int]uint64{}}
	if !g.setup() || !g.e.ensureSealed() {
		return g.script, g.e, g.dist
	}
	n := r.Range(6, 24)
	for i := 0; i < n; i++ {
		if !g.nextTx() {
			break
		}
	}
	g.emit("WORKER")
	return g.script, g.e, g.dist
}

// genBlock generates and executes one block script.
func genBlock(r *vh.RNG, drv *vh.Driver) (script []string, e *executor, dist map[string]int) {
	g := &blockGen{r: r, e: newExecutor(drv), valOp: map[int]int{}, dist: map[string]int{}}
	if !g.setup() || !g.e.ensureSealed() {
		return g.script, g.e, g.dist
	}
	n := r.Range(4, 16)
	for i := 0; i < n; i++ {
		if !g.nextTx() {
			break
		}
	}
	return g.script, g.e, g.dist
}
