package main

// End-to-end tier for the fetch loop: the REAL Downloader.fetchBodies / fetchParts is driven with scripted
// peers through the verif hook (VerifRunFetchLoop). Liveness oracle: with an honest master peer present the
// download completes before the watchdog, without error, and hands every block once, in order, body-matched.
// With Trace=true every callback the loop makes is recorded; the sequence is replayed into the Lean model
// (queue ops + `tick`, the loop's per-tick order of actions) and compared action by action and dump by dump.

import (
	"fmt"
	"math/big"
	"strconv"
	"strings"

	"github.com/youchainhq/go-youchain/common"
	"github.com/youchainhq/go-youchain/core/types"
	"github.com/youchainhq/go-youchain/you/downloader"
	"verifharness/internal/vh"
)

type loopScenario struct {
	name        string
	seed        uint64
	n           int
	origin      uint64
	emptyPct    int
	cacheLen    int
	peers       []downloader.VerifLoopPeer // ids are decimal; peer "1" is the honest master
	rttMs       int
	finishedAt  int
	importEvery int
	trace       bool
}

func (sc loopScenario) line() string {
	var ps []string
	for _, p := range sc.peers {
		ps = append(ps, fmt.Sprintf("%s:%d:%d:%d", p.ID, p.Kind, p.DelayMs, p.Throughput))
	}
	t := 0
	if sc.trace {
		t = 1
	}
	return fmt.Sprintf("LOOP %s %d %d %d %d %d %d %d %d %d %s", sc.name, sc.seed, sc.n, sc.origin, sc.emptyPct, sc.cacheLen, sc.rttMs, sc.finishedAt, sc.importEvery, t, strings.Join(ps, ","))
}

func parseLoopScenario(l string) (loopScenario, error) {
	f := strings.Fields(l)
	if len(f) != 12 || f[0] != "LOOP" {
		return loopScenario{}, fmt.Errorf("bad LOOP line")
	}
	iv := func(s string) int { v, _ := strconv.Atoi(s); return v }
	sc := loopScenario{name: f[1], n: iv(f[3]), origin: uint64(iv(f[4])), emptyPct: iv(f[5]), cacheLen: iv(f[6]), rttMs: iv(f[7]), finishedAt: iv(f[8]), importEvery: iv(f[9]), trace: f[10] == "1"}
	sc.seed, _ = strconv.ParseUint(f[2], 10, 64)
	for _, p := range strings.Split(f[11], ",") {
		q := strings.Split(p, ":")
		if len(q) != 3 && len(q) != 4 {
			return sc, fmt.Errorf("bad peer %q", p)
		}
		lp := downloader.VerifLoopPeer{ID: q[0], Kind: iv(q[1]), DelayMs: iv(q[2])}
		if len(q) == 4 {
			lp.Throughput = iv(q[3])
		}
		sc.peers = append(sc.peers, lp)
	}
	return sc, nil
}

func loopChain(sc loopScenario) ([]*types.Header, map[common.Hash][]*types.Transaction) {
	r := vh.NewRNG(sc.seed ^ 0x100B)
	var hs []*types.Header
	bodies := map[common.Hash][]*types.Transaction{}
	var parent common.Hash
	copy(parent[:], r.Bytes(32))
	for i := 0; i < sc.n; i++ {
		var txs []*types.Transaction
		if !r.Chance(sc.emptyPct) {
			txs = mkTxs(r, r.Range(1, 2))
		}
		h := mkHeader(new(big.Int).SetUint64(sc.origin+uint64(i)), parent, txs, nil, nil)
		hs = append(hs, h)
		bodies[h.Hash()] = txs
		parent = h.Hash()
	}
	return hs, bodies
}

const loopWatchdogMs = 4000

// runLoopScenario returns a failure description ("" = fine) and the hook's result.
func runLoopScenario(sc loopScenario, drvPath string) (string, string, *downloader.VerifLoopResult) {
	hs, bodies := loopChain(sc)
	downloader.VerifSetLimits(sc.cacheLen, 64*1024*1024, 2048)
	res := downloader.VerifRunFetchLoop(downloader.VerifLoopConfig{Origin: sc.origin, Headers: hs, Bodies: bodies, Peers: sc.peers,
		Master: "1", RTTms: sc.rttMs, WatchdogMs: loopWatchdogMs, FinishedAtMs: sc.finishedAt, ImportEvery: sc.importEvery, Trace: sc.trace})
	// ---- liveness + safety oracle on the real loop -------------------------------------------------
	if !res.Completed {
		var asked []string
		for _, p := range sc.peers {
			if p.Kind != downloader.VerifPeerHonest && p.ID != "" {
				asked = append(asked, fmt.Sprintf("peer %s (kind %d) was given %d blocks", p.ID, p.Kind, res.Asked[p.ID]))
			}
		}
		return "oracle", fmt.Sprintf("fetch loop never completed within %d ms although honest peer 1 was available: work taken by a faulty peer was not handed to others (queued=%d, in flight=%v; %s)",
			loopWatchdogMs, res.PendingBlocks, res.InFlight, strings.Join(asked, "; ")), res
	}
	if strings.HasPrefix(res.Err, "panic") {
		return "crash", "the fetch loop goroutine died (" + res.Err + "): a peer was sized a request with a non-positive count or similar; every peer must be given work with a capacity >= 1", res
	}
	if res.Err != "" {
		return "oracle", "fetch loop ended with error although honest master peer 1 was available: " + res.Err, res
	}
	if len(res.Results) != len(hs) {
		return "oracle", fmt.Sprintf("fetch loop completed but only %d of %d blocks reached the importer", len(res.Results), len(hs)), res
	}
	for i, r := range res.Results {
		if r.Header.Hash() != hs[i].Hash() {
			return "oracle", fmt.Sprintf("importer got block number %d at position %d, expected %d", r.Header.Number.Uint64(), i, hs[i].Number.Uint64()), res
		}
		if types.DeriveSha(r.Transactions) != r.Header.TxHash {
			return "oracle", fmt.Sprintf("block %d reached the importer with a body that does not match its header", r.Header.Number.Uint64()), res
		}
	}
	if sc.trace && drvPath != "" {
		if what := compareLoopTrace(sc, hs, res, drvPath); what != "" {
			return "correspondence", what, res
		}
	}
	return "", "", res
}

func quickLoopScenarios() []loopScenario {
	H, S, D, L, W, P, E := downloader.VerifPeerHonest, downloader.VerifPeerStaller, downloader.VerifPeerDisconnect, downloader.VerifPeerLiarOnce, downloader.VerifPeerSlow, downloader.VerifPeerPartial, downloader.VerifPeerEmpty
	pp := func(kinds ...int) []downloader.VerifLoopPeer {
		var out []downloader.VerifLoopPeer
		for i, k := range kinds {
			d := 0
			if k == W {
				d = 150
			}
			out = append(out, downloader.VerifLoopPeer{ID: strconv.Itoa(i + 1), Kind: k, DelayMs: d})
		}
		return out
	}
	return []loopScenario{
		{name: "stall-at-tail", seed: 1, n: 6, origin: 1, cacheLen: 64, peers: pp(H, S), rttMs: 25, trace: true},
		{name: "disconnect-at-tail", seed: 2, n: 6, origin: 1, cacheLen: 64, peers: pp(H, D), rttMs: 25, trace: true},
		{name: "stall-at-tail-fetchBodies", seed: 3, n: 6, origin: 7, cacheLen: 64, peers: pp(H, S), rttMs: 25, trace: false},
		{name: "disconnect-at-tail-fetchBodies", seed: 4, n: 5, origin: 7, cacheLen: 64, peers: pp(H, D), rttMs: 25, trace: false},
		{name: "stall-in-middle", seed: 5, n: 60, origin: 100, emptyPct: 20, cacheLen: 128, peers: pp(H, S, H), rttMs: 25, trace: true},
		{name: "liar-slow-partial-empty", seed: 6, n: 40, origin: 3, emptyPct: 10, cacheLen: 64, peers: pp(H, L, W, P, E), rttMs: 25, trace: true},
		{name: "throttled-window", seed: 7, n: 40, origin: 50, emptyPct: 30, cacheLen: 8, peers: pp(H, S, H), rttMs: 25, importEvery: 1, trace: true},
		{name: "late-finish-signal", seed: 8, n: 12, origin: 9, cacheLen: 64, peers: pp(H, S), rttMs: 25, finishedAt: 200, trace: true},
		// the ONLY peer lets its first request of > 2 bodies expire (setIdle(peer, 0), not dropped) and answers everything else
		{name: "only-peer-stalls-first-big-request", seed: 10, n: 60, origin: 1, cacheLen: 128, peers: []downloader.VerifLoopPeer{{ID: "1", Kind: downloader.VerifPeerStallFirst, Throughput: 500}}, rttMs: 25, importEvery: 1, trace: true},
		{name: "only-peer-stalls-first-big-request-fetchBodies", seed: 11, n: 40, origin: 5, cacheLen: 128, peers: []downloader.VerifLoopPeer{{ID: "1", Kind: downloader.VerifPeerStallFirst, Throughput: 800}}, rttMs: 25, importEvery: 1, trace: false},
		{name: "all-honest", seed: 9, n: 30, origin: 1, emptyPct: 50, cacheLen: 64, peers: pp(H, H, H), rttMs: 25, trace: true},
	}
}

func randomLoopScenario(r *vh.RNG, i int) loopScenario {
	sc := loopScenario{name: fmt.Sprintf("random-%d", i), seed: r.U64() % 1000000007, n: r.Range(3, 80), origin: uint64(r.Range(0, 500)),
		emptyPct: []int{0, 20, 60}[r.Intn(3)], cacheLen: []int{8, 16, 64, 256}[r.Intn(4)], rttMs: r.Range(20, 35), trace: r.Chance(80)}
	if sc.n > sc.cacheLen {
		sc.importEvery = 1
	} else if r.Chance(30) {
		sc.importEvery = r.Range(1, 3)
	}
	if r.Chance(20) {
		sc.finishedAt = r.Range(50, 300)
	}
	sc.peers = []downloader.VerifLoopPeer{{ID: "1", Kind: downloader.VerifPeerHonest}}
	extra := r.Range(1, 4)
	if r.Chance(15) { // the master is honest except for its first (big) request
		sc.peers[0] = downloader.VerifLoopPeer{ID: "1", Kind: downloader.VerifPeerStallFirst, Throughput: r.Range(200, 2000)}
		// its first request must have > 2 bodies (otherwise the loop rightly drops the master and aborts)
		sc.emptyPct = 0
		if sc.n < 30 {
			sc.n = r.Range(30, 80)
		}
		if sc.cacheLen < 16 {
			sc.cacheLen = 16
		}
		sc.importEvery = 1
		extra = 0 // alone: with competitors its first request may be small, and a master timing out on <= 2 items is dropped by design
	}
	for k := 0; k < extra; k++ {
		kind := r.Intn(7)
		d := 0
		if kind == downloader.VerifPeerSlow {
			d = r.Range(10, 200)
		}
		sc.peers = append(sc.peers, downloader.VerifLoopPeer{ID: strconv.Itoa(k + 2), Kind: kind, DelayMs: d})
	}
	return sc
}

// runLoopTier runs the scenarios and records failures.
func runLoopTier(c *vh.Ctx) {
	res := c.Res
	scs := quickLoopScenarios()
	nr := c.N(6, 150)
	r := c.R.Fork()
	for i := 0; i < nr; i++ {
		scs = append(scs, randomLoopScenario(r, i))
	}
	defer func() {
		res.DistN("loop-ticks-compared-with-model", ticksCompared)
		res.DistN("loop-callbacks-compared-with-model", callsCompared)
	}()
	for _, sc := range scs {
		journal(sc.line())
		kind, what, lr := runLoopScenario(sc, c.Driver)
		res.Dist("loop-scenarios")
		if sc.trace {
			res.Dist("loop-scenarios-traced")
		}
		if lr != nil {
			res.DistN("loop-callbacks-recorded", len(lr.Events))
			for id, n := range lr.Asked {
				if id != "1" && n > 0 {
					res.Dist("loop-faulty-peer-got-work")
					break
				}
			}
		}
		res.Count(sc.line(), len(sc.peers) >= 2)
		if kind != "" {
			rp := vh.WriteReplay(c.ReplayDir, "C18", fmt.Sprintf("loop-%s-s%d-%s", kind, c.Seed, sc.name), c.Seed,
				append([]string{kind + " (fetch loop): " + strings.Split(what, "\n")[0]}, strings.Split(what, "\n")[1:]...), []string{sc.line()})
			res.Fail(kind, "", "fetch loop scenario "+sc.name+": "+what, rp)
		}
	}
}
