package main

// Executor: runs one concrete op script on the REAL download queue (through the verif hook
// you/downloader/verif_hooks_c18.go) and on the compiled Lean model, op by op, and evaluates the
// property's statement directly on what the real queue hands out.
//
// Concrete op syntax (replay files contain exactly these lines):
//   P seed n origin cacheLen cacheMem maxProc mode emptyPct disciplined    (first line: parameters; the chain is derived from them)
//   S from hi hi ...         Schedule(headers H[hi]..., from); from = * means offset + headers accepted so far
//   RB|RR peer count         ReserveBodies / ReserveReceipts
//   DB|DR peer ref ref ...   DeliverBodies / DeliverReceipts; ref = t<hi> (the tx list / receipt list of H[hi]),
//                            g<k> (garbage list k), e (empty list)
//   CB|CR peer               CancelBodies / CancelReceipts (the peer's pending request)
//   EB|ER peer peer ...      ExpireBodies / ExpireReceipts with these peers overdue
//   V peer                   Revoke
//   X                        Results(false)
//   Z seed n origin mode emptyPct   new sync cycle on the SAME queue object (Close, Reset, peers reset, Prepare) with a new
//                            origin and a new (unrelated/forked) header chain derived from these parameters
//   HB|HR peer               honest answer: deliver exactly the bodies of the peer's pending request (resolved at run time)

import (
	"fmt"
	"math/big"
	"os"
	"sort"
	"strconv"
	"strings"

	"github.com/youchainhq/go-youchain/common"
	"github.com/youchainhq/go-youchain/core/types"
	"github.com/youchainhq/go-youchain/you/downloader"
	"verifharness/internal/vh"
)

type params struct {
	seed        uint64
	n           int
	origin      uint64 // Prepare offset = origin; first header has this number
	cacheLen    int
	cacheMem    int
	maxProc     int
	mode        int // 1 full, 2 fast, 3 light
	emptyPct    int
	disciplined bool
}

func (p params) line() string {
	d := 0
	if p.disciplined {
		d = 1
	}
	return fmt.Sprintf("P %d %d %d %d %d %d %d %d %d", p.seed, p.n, p.origin, p.cacheLen, p.cacheMem, p.maxProc, p.mode, p.emptyPct, d)
}

func parseParams(l string) (params, error) {
	f := strings.Fields(l)
	if len(f) != 10 || f[0] != "P" {
		return params{}, fmt.Errorf("bad parameter line %q", l)
	}
	v := make([]uint64, 9)
	for i := range v {
		x, err := strconv.ParseUint(f[i+1], 10, 64)
		if err != nil {
			return params{}, err
		}
		v[i] = x
	}
	return params{seed: v[0], n: int(v[1]), origin: v[2], cacheLen: int(v[3]), cacheMem: int(v[4]), maxProc: int(v[5]), mode: int(v[6]), emptyPct: int(v[7]), disciplined: v[8] != 0}, nil
}

func (p params) fast() bool { return p.mode == 2 || p.mode == 3 }

// ---- header / body universe ----------------------------------------------------------------------

type hent struct {
	h   *types.Header
	txs []*types.Transaction
	rcs []*types.Receipt
	tag string // chain | fork | badparent | nilnum
}

type universe struct {
	H         []hent // 0..n-1 = the honest chain; then malformed extras
	n         int
	garbTx    [][]*types.Transaction
	garbRc    [][]*types.Receipt
	byHash    map[common.Hash]int
	hashIDs   map[common.Hash]int
	rootIDs   map[common.Hash]int
	hcache    map[*types.Header]common.Hash
	extraBase []int // extraBase[k] = chain position the extra H[n+k] competes with
}

func mkTxs(r *vh.RNG, k int) []*types.Transaction {
	var out []*types.Transaction
	for i := 0; i < k; i++ {
		var to common.Address
		copy(to[:], r.Bytes(20))
		out = append(out, types.NewTransaction(uint64(r.Intn(1000)), to, big.NewInt(int64(r.Intn(1000000))), 21000, big.NewInt(int64(1+r.Intn(50))), r.Bytes(r.Intn(40))))
	}
	return out
}

func mkRcs(r *vh.RNG, k int) []*types.Receipt {
	var out []*types.Receipt
	for i := 0; i < k; i++ {
		out = append(out, types.NewReceipt(r.Bytes(32), r.Chance(10), uint64(21000*(i+1)+r.Intn(1000))))
	}
	return out
}

func mkHeader(num *big.Int, parent common.Hash, txs []*types.Transaction, rcs []*types.Receipt, extra []byte) *types.Header {
	return &types.Header{ParentHash: parent, Number: num, Subsidy: big.NewInt(0), GasRewards: big.NewInt(0), GasLimit: 8000000,
		TxHash: types.DeriveSha(types.Transactions(txs)), ReceiptHash: types.DeriveSha(types.Receipts(rcs)), Extra: extra}
}

func buildUniverse(p params) *universe {
	r := vh.NewRNG(p.seed ^ 0xC18C18)
	u := &universe{n: p.n, hcache: map[*types.Header]common.Hash{}, byHash: map[common.Hash]int{}, hashIDs: map[common.Hash]int{{}: 0}, rootIDs: map[common.Hash]int{types.EmptyRootHash: 0}}
	var parent common.Hash
	copy(parent[:], r.Bytes(32))
	var prevTxs []*types.Transaction
	for i := 0; i < p.n; i++ {
		var txs []*types.Transaction
		var rcs []*types.Receipt
		if !r.Chance(p.emptyPct) {
			if prevTxs != nil && r.Chance(10) {
				txs = prevTxs // two different headers with one tx root
			} else {
				txs = mkTxs(r, r.Range(1, 3))
			}
			prevTxs = txs
		}
		if p.fast() && !r.Chance(p.emptyPct) {
			rcs = mkRcs(r, r.Range(1, 3))
		}
		h := mkHeader(new(big.Int).SetUint64(p.origin+uint64(i)), parent, txs, rcs, nil)
		u.H = append(u.H, hent{h, txs, rcs, "chain"})
		parent = h.Hash()
	}
	// malformed extras, each tied to a chain position
	nx := 6 + p.n/4
	for k := 0; k < nx; k++ {
		i := r.Intn(p.n)
		u.extraBase = append(u.extraBase, i)
		base := u.H[i]
		switch r.Weighted([]int{15, 50, 35}) {
		case 0: // sibling: same number and parent, other content
			txs := mkTxs(r, r.Range(0, 2))
			u.H = append(u.H, hent{mkHeader(new(big.Int).Set(base.h.Number), base.h.ParentHash, txs, nil, []byte{byte(k), 1}), txs, nil, "fork"})
		case 1: // right number, wrong parent
			var ph common.Hash
			copy(ph[:], r.Bytes(32))
			u.H = append(u.H, hent{mkHeader(new(big.Int).Set(base.h.Number), ph, base.txs, base.rcs, []byte{byte(k), 2}), base.txs, base.rcs, "badparent"})
		case 2: // nil number
			u.H = append(u.H, hent{mkHeader(nil, base.h.ParentHash, base.txs, base.rcs, []byte{byte(k), 3}), base.txs, base.rcs, "nilnum"})
		}
	}
	for i, e := range u.H {
		u.byHash[e.h.Hash()] = i
	}
	for k := 0; k < 6; k++ {
		u.garbTx = append(u.garbTx, mkTxs(r, r.Range(1, 3)))
		u.garbRc = append(u.garbRc, mkRcs(r, r.Range(1, 3)))
	}
	return u
}

// hashOf caches Header.Hash() per header object (the queue hands back the very pointers it was given).
func (u *universe) hashOf(h *types.Header) common.Hash {
	if x, ok := u.hcache[h]; ok {
		return x
	}
	x := h.Hash()
	u.hcache[h] = x
	return x
}

func (u *universe) hid(h common.Hash) int {
	if id, ok := u.hashIDs[h]; ok {
		return id
	}
	id := len(u.hashIDs)
	u.hashIDs[h] = id
	return id
}

func (u *universe) rid(h common.Hash) int {
	if id, ok := u.rootIDs[h]; ok {
		return id
	}
	id := len(u.rootIDs)
	u.rootIDs[h] = id
	return id
}

// header as the model sees it: num hash parent tx rc nil
func (u *universe) hline(h *types.Header) string {
	num, nl := uint64(0), 1
	if h.Number != nil {
		num, nl = h.Number.Uint64(), 0
	}
	return fmt.Sprintf("%d %d %d %d %d %d", num, u.hid(h.Hash()), u.hid(h.ParentHash), u.rid(h.TxHash), u.rid(h.ReceiptHash), nl)
}

// ---- executor -------------------------------------------------------------------------------------

type failure struct {
	kind string // correspondence | oracle | crash
	what string
	at   int
}

type execT struct {
	p           params
	u           *universe
	vq          *downloader.VerifQueue
	drv         *vh.Driver
	accepted    []*types.Header // everything Schedule reported as inserted, in order
	returned    []*downloader.VerifResult
	linkChecked int
	lastDump    *downloader.VerifDump
	goFailed    bool // the real queue returned errInvalidChain at some point
	lastReq     map[string][]int
	prevReq     map[string][]int
	nOps        int
	epochs      int
	faults      map[string]int
	dist        map[string]int
}

func newExec(p params, u *universe, drv *vh.Driver) (*execT, error) {
	downloader.VerifSetLimits(p.cacheLen, p.cacheMem, p.maxProc)
	e := &execT{p: p, u: u, drv: drv, lastReq: map[string][]int{}, prevReq: map[string][]int{}, faults: map[string]int{}, dist: map[string]int{}}
	e.vq = downloader.VerifNewQueue(p.origin, downloader.SyncMode(p.mode))
	if drv != nil {
		f := 0
		if p.fast() {
			f = 1
		}
		if _, err := drv.Ask(fmt.Sprintf("I %d %d %d %d", p.cacheLen, p.maxProc, f, p.origin)); err != nil {
			return nil, err
		}
	}
	return e, nil
}

func joinInts(xs []int) string {
	s := make([]string, len(xs))
	for i, x := range xs {
		s[i] = strconv.Itoa(x)
	}
	return strings.Join(s, ",")
}

func b01(b bool) string {
	if b {
		return "1"
	}
	return "0"
}

func (e *execT) hidsSorted(hs []common.Hash) string {
	ids := make([]int, len(hs))
	for i, h := range hs {
		ids[i] = e.u.hid(h)
	}
	sort.Ints(ids)
	return joinInts(ids)
}

func (e *execT) hdrsInOrder(hs []*types.Header) string {
	ids := make([]int, len(hs))
	for i, h := range hs {
		ids[i] = e.u.hid(e.u.hashOf(h))
	}
	return joinInts(ids)
}

func (e *execT) pendStr(rs []downloader.VerifRequest) string {
	sort.Slice(rs, func(i, j int) bool { a, _ := strconv.Atoi(rs[i].Peer); b, _ := strconv.Atoi(rs[j].Peer); return a < b })
	var out []string
	for _, r := range rs {
		out = append(out, r.Peer+":"+e.hdrsInOrder(r.Headers))
	}
	return strings.Join(out, ";")
}

// dumpStr renders the real queue's state exactly like Driver/C18.lean `dump` renders the model's.
func (e *execT) dumpStr(d *downloader.VerifDump) string {
	var cache []string
	for _, c := range d.Cache {
		cache = append(cache, fmt.Sprintf("%d/%d/%d/%d/%s/%s", d.ResultOffset+uint64(c.Index), c.Header.Number.Uint64(), e.u.hid(e.u.hashOf(c.Header)), c.Pending, b01(c.HasTxs), b01(c.HasRcs)))
	}
	var peers []int
	for id, l := range d.Lacking {
		if len(l) > 0 {
			k, _ := strconv.Atoi(id)
			peers = append(peers, k)
		}
	}
	sort.Ints(peers)
	var lack []string
	for _, k := range peers {
		lack = append(lack, fmt.Sprintf("%d:%s", k, e.hidsSorted(d.Lacking[strconv.Itoa(k)])))
	}
	return fmt.Sprintf("off=%d head=%d cache=[%s] bp=[%s] bq=[%s] bpend=[%s] bd=[%s] rp=[%s] rq=[%s] rpend=[%s] rd=[%s] lack=[%s] pb=%d pr=%d ifb=%s ifr=%s idle=%s thb=%s thr=%s",
		d.ResultOffset, e.u.hid(d.HeaderHead), strings.Join(cache, ","),
		e.hidsSorted(d.BlockTaskPool), e.hdrsInOrder(d.BlockTaskQueue), e.pendStr(d.BlockPend), e.hidsSorted(d.BlockDonePool),
		e.hidsSorted(d.ReceiptTaskPool), e.hdrsInOrder(d.ReceiptTaskQueue), e.pendStr(d.ReceiptPend), e.hidsSorted(d.ReceiptDonePool),
		strings.Join(lack, ";"), d.PendingBlocks, d.PendingReceipts, b01(d.InFlightBlocks), b01(d.InFlightReceipts), b01(d.Idle),
		b01(d.ThrottleBlocks), b01(d.ThrottleReceipts))
}

func (e *execT) txRef(ref string) ([]*types.Transaction, error) {
	switch {
	case ref == "e":
		return []*types.Transaction{}, nil
	case strings.HasPrefix(ref, "t"):
		i, err := strconv.Atoi(ref[1:])
		if err != nil || i < 0 || i >= len(e.u.H) {
			return nil, fmt.Errorf("bad ref %q", ref)
		}
		return e.u.H[i].txs, nil
	case strings.HasPrefix(ref, "g"):
		i, err := strconv.Atoi(ref[1:])
		if err != nil || i < 0 || i >= len(e.u.garbTx) {
			return nil, fmt.Errorf("bad ref %q", ref)
		}
		return e.u.garbTx[i], nil
	}
	return nil, fmt.Errorf("bad ref %q", ref)
}

func (e *execT) rcRef(ref string) ([]*types.Receipt, error) {
	switch {
	case ref == "e":
		return []*types.Receipt{}, nil
	case strings.HasPrefix(ref, "t"):
		i, err := strconv.Atoi(ref[1:])
		if err != nil || i < 0 || i >= len(e.u.H) {
			return nil, fmt.Errorf("bad ref %q", ref)
		}
		return e.u.H[i].rcs, nil
	case strings.HasPrefix(ref, "g"):
		i, err := strconv.Atoi(ref[1:])
		if err != nil || i < 0 || i >= len(e.u.garbRc) {
			return nil, fmt.Errorf("bad ref %q", ref)
		}
		return e.u.garbRc[i], nil
	}
	return nil, fmt.Errorf("bad ref %q", ref)
}

// silence stderr around calls that reach common.Report (it prints a stack trace)
func quietStderr(f func()) {
	old := os.Stderr
	if null, err := os.OpenFile(os.DevNull, os.O_WRONLY, 0); err == nil {
		os.Stderr = null
		defer func() { os.Stderr = old; null.Close() }()
	}
	f()
}

// pendingOf returns the headers of the peer's pending request of the kind, as indices into H.
func (e *execT) pendingOf(kind byte, peer string) ([]int, bool) {
	d := e.lastDump
	if d == nil {
		d = e.vq.Dump()
	}
	rs := d.BlockPend
	if kind == 'R' {
		rs = d.ReceiptPend
	}
	for _, r := range rs {
		if r.Peer == peer {
			var out []int
			for _, h := range r.Headers {
				out = append(out, e.u.byHash[e.u.hashOf(h)])
			}
			return out, true
		}
	}
	return nil, false
}

// do executes one concrete op on the real queue and the model; returns the first failure (or nil).
func (e *execT) do(op string) (fl *failure) {
	at := e.nOps
	e.nOps++
	f := strings.Fields(op)
	opS := op // for messages
	if len(opS) > 160 {
		opS = opS[:160] + "…"
	}
	if len(f) == 0 {
		return nil
	}
	var goOut, leanLine string
	var newResults []*downloader.VerifResult
	var panicked interface{}
	func() {
		defer func() {
			if r := recover(); r != nil {
				panicked = r
			}
		}()
		switch f[0] {
		case "S":
			from, _ := strconv.ParseUint(f[1], 10, 64)
			if f[1] == "*" { // the downloader's discipline: origin + headers accepted so far
				from = e.p.origin + uint64(len(e.accepted))
			}
			var hs []*types.Header
			var hl []string
			for _, a := range f[2:] {
				i, err := strconv.Atoi(a)
				if err != nil || i < 0 || i >= len(e.u.H) {
					continue
				}
				hs = append(hs, e.u.H[i].h)
				hl = append(hl, e.u.hline(e.u.H[i].h))
			}
			ins := e.vq.Schedule(hs, from)
			e.accepted = append(e.accepted, ins...)
			goOut = fmt.Sprintf("ins=%d", len(ins))
			leanLine = fmt.Sprintf("S %%d %d %d %s", from, len(hs), strings.Join(hl, " "))
			e.dist["schedule"]++
			if len(ins) != len(hs) {
				e.dist["schedule-short"]++
			}
		case "RB", "RR":
			count, _ := strconv.Atoi(f[2])
			var req *downloader.VerifRequest
			var prog bool
			var err error
			quietStderr(func() {
				if f[0] == "RB" {
					req, prog, err = e.vq.ReserveBodies(f[1], count)
				} else {
					req, prog, err = e.vq.ReserveReceipts(f[1], count)
				}
			})
			rs := "nil"
			if req != nil {
				rs = e.hdrsInOrder(req.Headers)
				var idx []int
				for _, h := range req.Headers {
					idx = append(idx, e.u.byHash[e.u.hashOf(h)])
				}
				if old, ok := e.lastReq[f[0][1:]+f[1]]; ok {
					e.prevReq[f[0][1:]+f[1]] = old
				}
				e.lastReq[f[0][1:]+f[1]] = idx
				e.dist["reserve-request"]++
			} else {
				e.dist["reserve-nil"]++
			}
			if prog {
				e.dist["reserve-noop-progress"]++
			}
			ec := downloader.VerifErrClass(err)
			if ec == "invalidchain" {
				e.goFailed = true
			}
			goOut = fmt.Sprintf("req=%s prog=%s err=%s", rs, b01(prog), ec)
			leanLine = fmt.Sprintf("%s %%d %s %d", f[0], f[1], count)
		case "HB", "HR", "DB", "DR":
			kind := f[0][1]
			refs := f[2:]
			if f[0][0] == 'H' {
				refs = nil
				if idx, ok := e.pendingOf(kind, f[1]); ok {
					for _, i := range idx {
						refs = append(refs, "t"+strconv.Itoa(i))
					}
				}
			}
			var acc int
			var err error
			var roots []string
			if kind == 'B' {
				var lists [][]*types.Transaction
				for _, r := range refs {
					l, rerr := e.txRef(r)
					if rerr != nil {
						continue
					}
					lists = append(lists, l)
					roots = append(roots, strconv.Itoa(e.u.rid(types.DeriveSha(types.Transactions(l)))))
				}
				acc, err = e.vq.DeliverBodies(f[1], lists)
			} else {
				var lists [][]*types.Receipt
				for _, r := range refs {
					l, rerr := e.rcRef(r)
					if rerr != nil {
						continue
					}
					lists = append(lists, l)
					roots = append(roots, strconv.Itoa(e.u.rid(types.DeriveSha(types.Receipts(l)))))
				}
				acc, err = e.vq.DeliverReceipts(f[1], lists)
			}
			ec := downloader.VerifErrClass(err)
			if ec == "invalidchain" {
				e.goFailed = true
			}
			e.dist["deliver-"+ec]++
			goOut = fmt.Sprintf("acc=%d err=%s", acc, ec)
			leanLine = fmt.Sprintf("D%c %%d %s %d %s", kind, f[1], len(roots), strings.Join(roots, " "))
		case "CB", "CR":
			var ok bool
			if f[0] == "CB" {
				ok = e.vq.CancelBodies(f[1])
			} else {
				ok = e.vq.CancelReceipts(f[1])
			}
			e.dist["cancel-"+b01(ok)]++
			goOut = "cancelled=" + b01(ok)
			leanLine = fmt.Sprintf("%s %%d %s", f[0], f[1])
		case "EB", "ER":
			var m map[string]int
			if f[0] == "EB" {
				m = e.vq.ExpireBodies(f[1:])
			} else {
				m = e.vq.ExpireReceipts(f[1:])
			}
			var ids []int
			for id := range m {
				k, _ := strconv.Atoi(id)
				ids = append(ids, k)
			}
			sort.Ints(ids)
			var parts []string
			for _, k := range ids {
				parts = append(parts, fmt.Sprintf("%d:%d", k, m[strconv.Itoa(k)]))
			}
			e.dist["expire"]++
			e.dist["expired-requests"] += len(ids)
			goOut = "exp=" + strings.Join(parts, ",")
			leanLine = fmt.Sprintf("%s %%d %d %s", f[0], len(f)-1, strings.Join(f[1:], " "))
		case "V":
			e.vq.Revoke(f[1])
			e.dist["revoke"]++
			goOut = "ok"
			leanLine = fmt.Sprintf("V %%d %s", f[1])
		case "Z":
			v := make([]uint64, 5)
			for i := range v {
				if i+1 < len(f) {
					v[i], _ = strconv.ParseUint(f[i+1], 10, 64)
				}
			}
			if v[1] == 0 {
				v[1] = 1
			}
			if v[3] < 1 || v[3] > 3 {
				v[3] = 1
			}
			e.p.seed, e.p.n, e.p.origin, e.p.mode, e.p.emptyPct = v[0], int(v[1]), v[2], int(v[3]), int(v[4])
			e.u = buildUniverse(e.p)
			e.accepted, e.returned, e.linkChecked, e.goFailed = nil, nil, 0, false
			e.lastReq, e.prevReq = map[string][]int{}, map[string][]int{}
			e.vq.Reset(e.p.origin, downloader.SyncMode(e.p.mode))
			e.dist["reset-new-cycle"]++
			e.epochs++
			goOut = "ok"
			fz := 0
			if e.p.fast() {
				fz = 1
			}
			leanLine = fmt.Sprintf("Z %%d %d %d", e.p.origin, fz)
		case "X":
			newResults = e.vq.Results()
			var parts []string
			for _, r := range newResults {
				parts = append(parts, fmt.Sprintf("%d/%d/%d", e.u.hid(r.Header.Hash()), e.u.rid(types.DeriveSha(r.Transactions)), e.u.rid(types.DeriveSha(r.Receipts))))
			}
			e.dist["results"]++
			e.dist["results-returned"] += len(newResults)
			goOut = "res=" + strings.Join(parts, ",")
			leanLine = "X %d"
		default:
			goOut = "bad-op"
		}
	}()
	if panicked != nil {
		return &failure{"crash", fmt.Sprintf("real queue panicked on op %d %q: %v", at, opS, panicked), at}
	}
	if goOut == "bad-op" {
		return nil
	}
	d := e.vq.Dump()
	e.lastDump = d
	goFull := goOut + " # " + e.dumpStr(d)
	// ---- implementation-level oracle ------------------------------------------------------------
	if msg := e.oracle(newResults, d); msg != "" {
		fl = &failure{"oracle", fmt.Sprintf("op %d %q: %s", at, opS, msg), at}
	}
	// ---- correspondence ----------------------------------------------------------------------------
	if e.drv != nil {
		lean, err := e.drv.Ask(fmt.Sprintf(leanLine, e.vq.VerifLimit()))
		if err != nil {
			return &failure{"crash", "lean driver: " + err.Error(), at}
		}
		if lean != goFull && fl == nil {
			fl = &failure{"correspondence", fmt.Sprintf("op %d %q: real queue and model differ\n  go:   %s\n  lean: %s", at, opS, diffHint(goFull, lean), diffHint(lean, goFull)), at}
		}
	}
	return fl
}

// diffHint shortens a to the neighbourhood of the first difference with b.
func diffHint(a, b string) string {
	i := 0
	for i < len(a) && i < len(b) && a[i] == b[i] {
		i++
	}
	lo := i - 60
	if lo < 0 {
		lo = 0
	}
	hi := i + 100
	if hi > len(a) {
		hi = len(a)
	}
	// always keep the op answer (before " # ")
	head := a
	if k := strings.Index(a, " # "); k >= 0 {
		head = a[:k]
	}
	if len(head) > 120 {
		head = head[:120] + "…"
	}
	return head + " … @" + strconv.Itoa(i) + ": " + a[lo:hi]
}

// oracle: the property's statement evaluated on the real queue's observable behaviour.
func (e *execT) oracle(newResults []*downloader.VerifResult, d *downloader.VerifDump) string {
	// (1) in order, gap free, once, starting at the origin; (2) body matches the header's roots
	for _, r := range newResults {
		i := len(e.returned)
		e.returned = append(e.returned, r)
		want := e.p.origin + uint64(i)
		if r.Header == nil || r.Header.Number == nil || r.Header.Number.Uint64() != want {
			return fmt.Sprintf("result #%d handed to the importer has number %v, expected %d (ascending, gap-free from the origin)", i, r.Header.Number, want)
		}
		if i >= len(e.accepted) || e.accepted[i].Hash() != r.Header.Hash() {
			return fmt.Sprintf("result #%d (number %d) is not the header scheduled at that position", i, want)
		}
		if i > 0 && e.returned[i-1].Header.Hash() != r.Header.ParentHash {
			return fmt.Sprintf("result #%d (number %d) does not link to the previous result", i, want)
		}
		if types.DeriveSha(r.Transactions) != r.Header.TxHash {
			return fmt.Sprintf("result #%d (number %d): transaction list does not hash to the header's transaction root", i, want)
		}
		if e.p.fast() && types.DeriveSha(r.Receipts) != r.Header.ReceiptHash {
			return fmt.Sprintf("result #%d (number %d): receipt list does not hash to the header's receipt root", i, want)
		}
		if r.Pending != 0 {
			return fmt.Sprintf("result #%d (number %d) returned with Pending=%d", i, want, r.Pending)
		}
	}
	// Schedule mechanism: accepted headers are contiguous from the first `from` and hash linked
	for i := e.linkChecked + 1; i < len(e.accepted); i++ {
		e.linkChecked = i
		if e.accepted[i].Number.Uint64() != e.accepted[i-1].Number.Uint64()+1 || e.accepted[i].ParentHash != e.u.hashOf(e.accepted[i-1]) {
			return fmt.Sprintf("Schedule accepted header #%d that is not the numbered, hash-linked successor of #%d", i, i-1)
		}
	}
	if !e.p.disciplined {
		return ""
	}
	if e.goFailed {
		return "errInvalidChain returned although Schedule was always called with from = offset + accepted so far"
	}
	// (3) no task lost: every scheduled, unreturned header is in exactly one place, per kind
	check := func(kind string, queue []*types.Header, pend []downloader.VerifRequest, done []common.Hash) string {
		seen := map[common.Hash]string{}
		add := func(h common.Hash, where string) string {
			if w, ok := seen[h]; ok {
				return fmt.Sprintf("%s task for header id %d is both in %s and in %s", kind, e.u.hid(h), w, where)
			}
			seen[h] = where
			return ""
		}
		for _, h := range queue {
			if m := add(e.u.hashOf(h), "the task queue"); m != "" {
				return m
			}
		}
		for _, r := range pend {
			for _, h := range r.Headers {
				if m := add(e.u.hashOf(h), "the pending request of peer "+r.Peer); m != "" {
					return m
				}
			}
		}
		for _, h := range done {
			if m := add(h, "the done pool"); m != "" {
				return m
			}
		}
		for i := len(e.returned); i < len(e.accepted); i++ {
			h := e.u.hashOf(e.accepted[i])
			if _, ok := seen[h]; !ok {
				return fmt.Sprintf("%s task for scheduled, not yet returned header number %d is in no pool (lost)", kind, e.accepted[i].Number.Uint64())
			}
			delete(seen, h)
		}
		for h, w := range seen {
			return fmt.Sprintf("%s task for header id %d sits in %s but is not a scheduled, unreturned header", kind, e.u.hid(h), w)
		}
		return ""
	}
	if m := check("body", d.BlockTaskQueue, d.BlockPend, d.BlockDonePool); m != "" {
		return m
	}
	if e.p.fast() {
		if m := check("receipt", d.ReceiptTaskQueue, d.ReceiptPend, d.ReceiptDonePool); m != "" {
			return m
		}
	}
	// slot/offset consistency of the result cache
	for _, c := range d.Cache {
		if c.Header.Number.Uint64() != d.ResultOffset+uint64(c.Index) || c.Hash != e.u.hashOf(c.Header) {
			return fmt.Sprintf("result cache slot %d holds header number %d at offset %d", c.Index, c.Header.Number.Uint64(), d.ResultOffset)
		}
	}
	if d.ResultOffset != e.p.origin+uint64(len(e.returned)) {
		return fmt.Sprintf("resultOffset %d != origin %d + %d results returned", d.ResultOffset, e.p.origin, len(e.returned))
	}
	return ""
}

// drainOps: honest rounds. Each round expires everything, lets one honest peer reserve and answer
// (both kinds in fast mode) and collects results. The progress theorem says every round hands at
// least one block to the importer while one is outstanding.
func (e *execT) drain(honest string, count int, record func(string)) *failure {
	rounds := 0
	for len(e.returned) < len(e.accepted) {
		before := len(e.returned)
		d := e.vq.Dump()
		e.lastDump = d
		var ops []string
		if len(d.BlockPend) > 0 {
			var ps []string
			for _, r := range d.BlockPend {
				ps = append(ps, r.Peer)
			}
			ops = append(ops, "EB "+strings.Join(ps, " "))
		}
		if len(d.ReceiptPend) > 0 {
			var ps []string
			for _, r := range d.ReceiptPend {
				ps = append(ps, r.Peer)
			}
			ops = append(ops, "ER "+strings.Join(ps, " "))
		}
		ops = append(ops, fmt.Sprintf("RB %s %d", honest, count), "HB "+honest)
		if e.p.fast() {
			ops = append(ops, fmt.Sprintf("RR %s %d", honest, count), "HR "+honest)
		}
		ops = append(ops, "X")
		for _, op := range ops {
			record(op)
			if fl := e.do(op); fl != nil {
				return fl
			}
		}
		rounds++
		if len(e.returned) == before {
			return &failure{"oracle", fmt.Sprintf("no progress: an honest round (expire all, reserve+deliver by honest peer %s, Results) returned nothing while %d scheduled blocks are outstanding", honest, len(e.accepted)-len(e.returned)), e.nOps - 1}
		}
	}
	e.dist["drain-rounds"] += rounds
	return nil
}
