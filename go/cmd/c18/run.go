package main

// C18 harness: seeded script generator (mostly valid + malformed stream), lock-step execution on the
// real queue and the Lean model, oracle, shrinking, replay, corpus.

import (
	"fmt"
	"os"
	"sort"
	"strconv"
	"strings"

	"verifharness/internal/quiet"
	"verifharness/internal/vh"
)

func genParams(r *vh.RNG, thorough bool) params {
	p := params{seed: r.U64() % 1000000007, disciplined: !r.Chance(8)}
	switch r.Intn(10) {
	case 0, 1, 2:
		p.n = r.Range(10, 40)
	case 3, 4, 5, 6:
		p.n = r.Range(40, 150)
	default:
		p.n = r.Range(150, 400)
	}
	if !thorough && p.n > 250 && r.Chance(60) {
		p.n = r.Range(60, 250)
	}
	p.origin = uint64(r.Range(1, 3000))
	if r.Chance(5) {
		p.origin = 0
	}
	p.cacheLen = []int{3, 4, 8, 16, 32, 64, 128, 8192}[r.Intn(8)]
	p.cacheMem = 64 * 1024 * 1024
	if r.Chance(25) {
		p.cacheMem = r.Range(300, 20000) // the memory cap on the window becomes active
	}
	p.maxProc = []int{1, 2, 5, 16, 2048}[r.Intn(5)]
	p.mode = 1
	if r.Chance(40) {
		p.mode = 2
		if r.Chance(15) {
			p.mode = 3
		}
	}
	p.emptyPct = []int{0, 10, 30, 60, 95}[r.Intn(5)]
	return p
}

type genState struct {
	r       *vh.RNG
	e       *execT
	peers   int
	pos     int // next honest chain index to schedule
	nextNum uint64
	stuck   bool // a sibling was accepted: the honest chain no longer links
	faults  int
	ops     []string

	resetsLeft, resetEvery int

	afterSchedule func()
}

func (g *genState) peer() string { return strconv.Itoa(1 + g.r.Intn(g.peers)) }

// peerWhere prefers (85%) a peer whose "has a pending request of kind k" equals want.
func (g *genState) peerWhere(k byte, want bool) string {
	if g.r.Chance(85) {
		var c []string
		for i := 1; i <= g.peers; i++ {
			p := strconv.Itoa(i)
			if _, has := g.e.pendingOf(k, p); has == want {
				c = append(c, p)
			}
		}
		if len(c) > 0 {
			return c[g.r.Intn(len(c))]
		}
	}
	return g.peer()
}

func (g *genState) count() int {
	switch g.r.Intn(10) {
	case 0:
		return g.r.Intn(2)
	case 1:
		return 128
	default:
		return g.r.Range(2, 12)
	}
}

// next concrete op, chosen from what the harness observed so far
func (g *genState) next() string {
	r, e, u := g.r, g.e, g.e.u
	kinds := "B"
	if e.p.fast() {
		kinds = "BR"
	}
	k := string(kinds[r.Intn(len(kinds))])
	if g.resetsLeft > 0 && r.Intn(g.resetEvery) == 0 {
		// abort the cycle (results may still sit in the cache) and start another one elsewhere
		g.resetsLeft--
		g.faults++
		if d := e.lastDump; d != nil && len(d.Cache) > 0 {
			e.dist["reset-with-cached-results"]++
		}
		org := int(e.p.origin) + r.Range(-4, 6)
		if org < 0 || r.Chance(10) {
			org = r.Intn(50)
		}
		mode := e.p.mode
		if r.Chance(25) {
			mode = 1 + r.Intn(2)
		}
		g.pos, g.stuck = 0, false
		return fmt.Sprintf("Z %d %d %d %d %d", r.U64()%1000000007, r.Range(10, 150), org, mode, []int{0, 10, 30, 60}[r.Intn(4)])
	}
	w := []int{10, 30, 32, 5, 3, 3, 12}
	if d := e.lastDump; d != nil {
		qlen, npend := d.PendingBlocks, len(d.BlockPend)
		if k == "R" {
			qlen, npend = d.PendingReceipts, len(d.ReceiptPend)
		}
		if qlen == 0 {
			w[0], w[1] = 40, 3
		}
		if npend == 0 {
			w[2], w[3], w[4], w[5] = 3, 1, 1, 1
		}
	}
	if g.pos >= u.n || g.stuck {
		w[0] = 1
	}
	switch r.Weighted(w) {
	case 0: // schedule
		from := e.p.origin + uint64(len(e.accepted))
		if !e.p.disciplined && r.Chance(40) {
			from = uint64(int(from) + r.Range(-3, 3))
			if len(e.accepted) == 0 && r.Chance(50) {
				g.pos = r.Intn(4) // start the chain elsewhere
				from = e.p.origin + uint64(g.pos)
			}
		}
		cnt := r.Range(1, 40)
		if r.Chance(10) {
			cnt = r.Range(40, 200)
		}
		var hi []int
		for i := 0; i < cnt && g.pos+i < u.n; i++ {
			hi = append(hi, g.pos+i)
		}
		if r.Chance(18) && len(hi) > 0 { // malformed chunk
			g.faults++
			at := r.Intn(len(hi) + 1)
			var bad int
			switch r.Intn(5) {
			case 0: // gap
				bad = hi[len(hi)-1] + 2
				if bad >= u.n {
					bad = u.n - 1
				}
			case 1: // duplicate of something already scheduled / earlier
				bad = r.Intn(hi[0] + 1)
			case 2, 3, 4: // an extra (sibling, wrong parent, nil number), put where its number fits if possible
				bad = u.n + r.Intn(len(u.H)-u.n)
				var fit []int
				for k, b := range u.extraBase {
					if b >= hi[0] && b <= hi[len(hi)-1] {
						fit = append(fit, k)
					}
				}
				if len(fit) > 0 && r.Chance(85) {
					k := fit[r.Intn(len(fit))]
					bad, at = u.n+k, u.extraBase[k]-hi[0]
				}
			}
			hi = append(hi[:at], append([]int{bad}, hi[at:]...)...)
			e.dist["schedule-malformed-"+u.H[bad].tag]++
		}
		before := len(e.accepted)
		op := fmt.Sprintf("S %d %s", from, strings.Join(strs(hi), " "))
		if e.p.disciplined {
			op = fmt.Sprintf("S * %s", strings.Join(strs(hi), " "))
		}
		g.afterSchedule = func() {
			// advance along the honest chain by what was really accepted
			for _, h := range e.accepted[before:] {
				i := u.byHash[h.Hash()]
				if i < u.n {
					g.pos = i + 1
				} else {
					g.stuck = true
				}
			}
		}
		return op
	case 1: // reserve
		return fmt.Sprintf("R%s %s %d", k, g.peerWhere(k[0], false), g.count())
	case 2: // deliver
		p := g.peerWhere(k[0], true)
		idx, pending := e.pendingOf(k[0], p)
		if !pending {
			// unsolicited / duplicated / late: answer the last request the peer ever got, or random bodies
			g.faults++
			e.dist["fault-unsolicited"]++
			if old, ok := e.lastReq[k+p]; ok && r.Chance(70) {
				idx = old
			} else {
				for i := 0; i < r.Range(0, 4); i++ {
					idx = append(idx, r.Intn(u.n))
				}
			}
			return fmt.Sprintf("D%s %s %s", k, p, strings.Join(refs(idx), " "))
		}
		switch r.Weighted([]int{65, 12, 8, 10, 5, 5, 5, 5}) {
		case 0: // honest, complete
			e.dist["answer-honest"]++
			return fmt.Sprintf("H%s %s", k, p)
		case 1: // partial
			g.faults++
			e.dist["fault-partial"]++
			return fmt.Sprintf("D%s %s %s", k, p, strings.Join(refs(idx[:r.Intn(len(idx))]), " "))
		case 2: // empty
			g.faults++
			e.dist["fault-empty"]++
			return fmt.Sprintf("D%s %s", k, p)
		case 3: // one wrong body
			g.faults++
			e.dist["fault-wrong-body"]++
			rs := refs(idx)
			j := r.Intn(len(rs))
			switch r.Intn(3) {
			case 0:
				rs[j] = "g" + strconv.Itoa(r.Intn(len(u.garbTx)))
			case 1:
				rs[j] = "t" + strconv.Itoa(r.Intn(u.n))
			case 2:
				rs[j] = "e"
			}
			return fmt.Sprintf("D%s %s %s", k, p, strings.Join(rs, " "))
		case 4: // shifted by one
			g.faults++
			e.dist["fault-shifted"]++
			rs := refs(idx)
			return fmt.Sprintf("D%s %s %s", k, p, strings.Join(append(rs[1:], rs[0]), " "))
		case 5: // too many
			g.faults++
			e.dist["fault-extra"]++
			rs := append(refs(idx), "t"+strconv.Itoa(r.Intn(u.n)), "g0")
			return fmt.Sprintf("D%s %s %s", k, p, strings.Join(rs, " "))
		case 6: // answer to an older request of the same peer (late delivery)
			g.faults++
			e.dist["fault-late"]++
			if old, ok := e.prevReq[k+p]; ok {
				return fmt.Sprintf("D%s %s %s", k, p, strings.Join(refs(old), " "))
			}
			return fmt.Sprintf("D%s %s %s", k, p, strings.Join(refs(idx[:len(idx)/2]), " "))
		default: // answered by the wrong kind of data (bodies of other blocks entirely)
			g.faults++
			e.dist["fault-foreign"]++
			var o []int
			for range idx {
				o = append(o, r.Intn(u.n))
			}
			return fmt.Sprintf("D%s %s %s", k, p, strings.Join(refs(o), " "))
		}
	case 3: // expire a subset of the pending peers
		g.faults++
		var ps []string
		for i := 1; i <= g.peers; i++ {
			if r.Chance(50) {
				ps = append(ps, strconv.Itoa(i))
			}
		}
		return strings.TrimSpace(fmt.Sprintf("E%s %s", k, strings.Join(ps, " ")))
	case 4:
		g.faults++
		return fmt.Sprintf("C%s %s", k, g.peerWhere(k[0], true))
	case 5:
		g.faults++
		return "V " + g.peer()
	default:
		return "X"
	}
}

func strs(xs []int) []string {
	out := make([]string, len(xs))
	for i, x := range xs {
		out[i] = strconv.Itoa(x)
	}
	return out
}

func refs(xs []int) []string {
	out := make([]string, len(xs))
	for i, x := range xs {
		out[i] = "t" + strconv.Itoa(x)
	}
	return out
}

// runOps executes a fixed script (+ honest drain for disciplined ones) from scratch.
func runOps(p params, ops []string, drv *vh.Driver, withDrain bool) (*failure, *execT) {
	u := buildUniverse(p)
	e, err := newExec(p, u, drv)
	if err != nil {
		return &failure{"crash", err.Error(), 0}, nil
	}
	for _, op := range ops {
		if fl := e.do(op); fl != nil {
			return fl, e
		}
	}
	if withDrain && p.disciplined {
		if fl := e.drain("99", 7, func(string) {}); fl != nil {
			return fl, e
		}
	}
	return nil, e
}

func run(c *vh.Ctx) error {
	quiet.Silence()
	res := c.Res
	res.Rule = "case = one op script (Schedule/Reserve/Deliver/Cancel/Expire/Revoke/Results, 1-5 peers, 10-400 headers) run in lock step on the real queue and the model, followed by an honest drain; non-trivial when >= 2 peers took part and >= 1 fault (partial/empty/wrong/shifted/extra/late/unsolicited delivery, expiry, cancel, revoke, malformed header batch) occurred; distinct by the concrete op text"
	var drv *vh.Driver
	if c.Driver != "" {
		var err error
		drv, err = vh.StartDriver(c.Driver)
		if err != nil {
			return err
		}
		defer drv.Close()
	}
	journalPath = c.ReplayDir + "/C18-last-input.replay"
	defer os.Remove(journalPath)
	// ---- corpus first ------------------------------------------------------------------------------
	for _, f := range vh.CorpusFiles("C18") {
		body, comments, err := vh.ReadReplay(f)
		if err != nil {
			continue
		}
		still, what := replayWith(drv, body, comments)
		res.Dist("corpus")
		if still {
			res.Fail("corpus", "", "corpus witness fails again: "+f+": "+what, f)
		}
	}
	nScripts := c.N(380, 4200)
	if os.Getenv("VERIF_C18_LOOP_ONLY") != "" { // debugging aid: only the end-to-end loop tier
		nScripts = 0
	}
	if c.Search {
		nScripts *= 2
	}
	totalOps := 0
	for si := 0; si < nScripts; si++ {
		r := c.R.Fork()
		p := genParams(r, c.Thorough())
		u := buildUniverse(p)
		e, err := newExec(p, u, drv)
		if err != nil {
			return err
		}
		g := &genState{r: r, e: e, peers: r.Range(1, 5), resetEvery: 1}
		budget := p.n*r.Range(1, 3) + 40
		if r.Chance(40) {
			g.resetsLeft = r.Range(1, 3)
			g.resetEvery = budget/(g.resetsLeft+1) + 1
			budget += 150 * g.resetsLeft
		}
		var fl *failure
		for i := 0; i < budget && fl == nil; i++ {
			op := g.next()
			g.ops = append(g.ops, op)
			fl = e.do(op)
			if g.afterSchedule != nil {
				g.afterSchedule()
				g.afterSchedule = nil
			}
		}
		if fl == nil && p.disciplined {
			// schedule whatever is left of the honest chain, then drain with an honest peer
			for g.pos < e.u.n && !g.stuck && fl == nil {
				hi := []int{}
				for i := 0; i < 64 && g.pos+i < e.u.n; i++ {
					hi = append(hi, g.pos+i)
				}
				op := fmt.Sprintf("S * %s", strings.Join(strs(hi), " "))
				g.ops = append(g.ops, op)
				before := len(e.accepted)
				fl = e.do(op)
				if len(e.accepted) == before {
					break
				}
				g.pos += len(e.accepted) - before
			}
			if fl == nil {
				fl = e.drain("99", r.Range(1, 9), func(op string) { g.ops = append(g.ops, op) })
			}
			if fl == nil && !g.stuck && len(e.returned) != e.u.n && g.pos >= e.u.n {
				fl = &failure{"oracle", fmt.Sprintf("after the honest drain %d of %d blocks were handed to the importer", len(e.returned), e.u.n), e.nOps}
			}
		}
		totalOps += e.nOps
		for k, v := range e.dist {
			res.DistN(k, v)
		}
		res.Dist(fmt.Sprintf("mode-%d", p.mode))
		res.Dist(fmt.Sprintf("peers-%d", g.peers))
		res.Dist(fmt.Sprintf("headers-%03d+", p.n/100*100))
		res.Dist(fmt.Sprintf("cacheLen-%d", p.cacheLen))
		if !p.disciplined {
			res.Dist("undisciplined-from")
		}
		if e.epochs > 0 {
			res.Dist("scripts-with-resets")
		}
		if p.cacheMem < 1<<20 {
			res.Dist("memory-capped-window")
		}
		res.Count(p.line()+"\n"+strings.Join(g.ops, "\n"), g.peers >= 2 && g.faults >= 1)
		res.TracesVsImpl += e.nOps
		if si < 2 {
			k := len(g.ops)
			if k > 12 {
				k = 12
			}
			res.Sample(map[string]interface{}{"params": p.line(), "first_ops": g.ops[:k], "ops": len(g.ops), "returned": len(e.returned), "scheduled": len(e.accepted)})
		}
		if fl != nil {
			ops := g.ops
			if fl.at+1 < len(ops) {
				ops = ops[:fl.at+1]
			}
			kind := fl.kind
			shr := vh.Shrink(ops, func(cand []string) bool {
				f2, _ := runOps(p, cand, drv, true)
				return f2 != nil && f2.kind == kind
			})
			f2, _ := runOps(p, shr, drv, true)
			if f2 == nil {
				f2, shr = fl, ops
			}
			rp := vh.WriteReplay(c.ReplayDir, "C18", fmt.Sprintf("%s-s%d-%d", f2.kind, c.Seed, si), c.Seed,
				append([]string{f2.kind + ": " + strings.Split(f2.what, "\n")[0]}, strings.Split(f2.what, "\n")[1:]...), append([]string{p.line()}, shr...))
			res.Fail(f2.kind, "", f2.what, rp)
			if len(res.Failures) >= 5 {
				break
			}
		}
	}
	// ---- large aborted cycles: > 4096 body tasks still queued at Reset (block boundaries of common/prque's stack) ----
	runLargeResets(c, drv)
	// ---- end-to-end tier: the real fetch loop with scripted peers ---------------------------------------
	runLoopTier(c)
	// ---- skeleton header fill with a gated processor; peer capacities ---------------------------------------
	runExtraTier(c)
	// ---- announcement/propagation path: the real you/fetcher.Fetcher with scripted peers and a blocking importer ----
	runFetcherTier(c)
	res.Extra["ops_compared"] = totalOps
	keys := make([]string, 0, len(res.Distribution))
	for k := range res.Distribution {
		keys = append(keys, k)
	}
	sort.Strings(keys)
	res.Partial = append(res.Partial,
		"goroutine scheduling of the fetchers, real timers and peer-set idleness (peer.go, peer_set.go) are not modelled: expiry is an explicit op naming the overdue peers",
		"header skeleton filling (ScheduleSkeleton/DeliverHeaders), ScheduleSingle (light sync) and you/fetcher/fetcher.go (announced-block import) are outside the model",
		"the window length `limit` (float moving average of result sizes against blockCacheMemory) is read from the real queue and passed to the model as an input")
	return nil
}

func replayWith(drv *vh.Driver, body, comments []string) (bool, string) {
	if len(body) == 0 {
		return false, "empty replay"
	}
	if strings.HasPrefix(body[0], "SKEL ") {
		k, err := parseSkel(body[0])
		if err != nil {
			return false, err.Error()
		}
		if v := runSkel(k); v != "" {
			return true, "oracle: " + v
		}
		return false, "skeleton fill: the header processor receives the honest chain in order, once, gap-free"
	}
	if strings.HasPrefix(body[0], "CAP ") {
		if v := runCap(parseCap(body[0])); v != "" {
			return true, "oracle: " + v
		}
		return false, "peer capacities stay >= 1, bounded and finite after every step"
	}
	if strings.HasPrefix(body[0], "FETCHER ") {
		f := strings.Fields(body[0])
		seed := uint64(1)
		if len(f) > 2 {
			seed, _ = strconv.ParseUint(f[2], 10, 64)
		}
		if len(f) < 2 {
			return false, "bad FETCHER line"
		}
		if v := runFetcherScenario(f[1], seed, 25); v != "" {
			return true, "oracle: " + v
		}
		return false, "fetcher scenario holds in 25 runs: every block imported at most once, parent first, honest blocks imported"
	}
	if strings.HasPrefix(body[0], "LOOP ") {
		sc, err := parseLoopScenario(body[0])
		if err != nil {
			return false, err.Error()
		}
		path := ""
		if drv != nil {
			path = drv.Path
		}
		kind, what, _ := runLoopScenario(sc, path)
		if kind != "" {
			return true, kind + ": " + what
		}
		return false, "fetch loop scenario completes: every block reaches the importer once, in order, body-matched"
	}
	p, err := parseParams(body[0])
	if err != nil {
		return false, err.Error()
	}
	fl, _ := runOps(p, body[1:], drv, true)
	if fl != nil {
		return true, fl.kind + ": " + fl.what
	}
	return false, "script runs clean: real queue and model agree, oracle holds"
}

func replay(c *vh.Ctx, body, comments []string) (bool, string) {
	quiet.Silence()
	var drv *vh.Driver
	if c.Driver != "" {
		drv, _ = vh.StartDriver(c.Driver)
		if drv != nil {
			defer drv.Close()
		}
	}
	return replayWith(drv, body, comments)
}

// runLargeResets: a first cycle schedules `queued` (+ a few served) headers and is abandoned with `queued` body tasks
// still in the task queue; Reset; a second cycle on an unrelated chain from another origin is scheduled and drained by
// one honest peer. The model's task queue is a sorted list; the real one is common/prque (a heap over a blocked stack of
// 4096-item blocks) — these runs are what ties the abstraction to prque across Reset, at and around the block boundaries.
func runLargeResets(c *vh.Ctx, drv *vh.Driver) {
	res := c.Res
	sizes := []int{4097, 8193}
	if c.Thorough() {
		sizes = []int{4095, 4096, 4097, 4098, 5000, 8191, 8192, 8193, 9000, 12289}
	}
	for ci, queued := range sizes {
		served := 0
		if ci%2 == 1 {
			served = 6 // some results complete and cached, not pulled, at the abort
		}
		p := params{seed: c.Seed*977 + uint64(queued), n: queued + served, origin: uint64(1000 + 7*ci), cacheLen: 8192, cacheMem: 64 * 1024 * 1024,
			maxProc: 2048, mode: 1, emptyPct: 97, disciplined: true}
		if ci%3 == 2 {
			p.mode = 2
		}
		var ops []string
		if served > 0 { // serve the first few blocks before the rest of the headers arrive
			ops = append(ops, "S * "+strings.Join(strs(seq(0, served)), " "), fmt.Sprintf("RB 1 %d", served), "HB 1")
			if p.mode == 2 {
				ops = append(ops, fmt.Sprintf("RR 1 %d", served), "HR 1")
			}
		}
		for at := served; at < p.n; at += 2048 { // processHeaders schedules chunks of at most 2048
			end := at + 2048
			if end > p.n {
				end = p.n
			}
			ops = append(ops, "S * "+strings.Join(strs(seq(at, end)), " "))
		}
		n2 := 150 + 31*ci
		ops = append(ops, fmt.Sprintf("Z %d %d %d %d 50", p.seed+1, n2, int(p.origin)+3-2*(ci%3), 1+ci%2))
		ops = append(ops, "S * "+strings.Join(strs(seq(0, n2)), " "), "RB 2 9", "HB 2", "X")
		fl, e := runOps(p, ops, drv, true)
		res.Dist("large-reset-cases")
		res.Count(p.line()+fmt.Sprintf(" large-reset queued=%d", queued), true)
		if e != nil {
			res.TracesVsImpl += e.nOps
			if fl == nil && len(e.returned) != n2 {
				fl = &failure{"oracle", fmt.Sprintf("second cycle after an abort with %d queued body tasks: %d of %d blocks reached the importer", queued, len(e.returned), n2), e.nOps}
			}
		}
		if fl != nil {
			if fl.at+1 < len(ops) {
				ops = ops[:fl.at+1]
			}
			rp := vh.WriteReplay(c.ReplayDir, "C18", fmt.Sprintf("large-reset-%s-s%d-%d", fl.kind, c.Seed, queued), c.Seed,
				append([]string{fl.kind + fmt.Sprintf(" (cycle abandoned with %d body tasks queued, then Reset): ", queued) + strings.Split(fl.what, "\n")[0]}, strings.Split(fl.what, "\n")[1:]...), append([]string{p.line()}, ops...))
			res.Fail(fl.kind, "", fmt.Sprintf("large reset (%d tasks queued at abort): %s", queued, fl.what), rp)
		}
	}
}

func seq(a, b int) []int {
	out := make([]int, 0, b-a)
	for i := a; i < b; i++ {
		out = append(out, i)
	}
	return out
}
