package main

// Announcement/propagation path: a REAL you/fetcher.Fetcher (fetcher.New, Start, Enqueue, Notify) is driven with scripted
// peers and a recording importer that can hold imports in flight. Oracle, evaluated at every insertChain call:
//   * a block hash is never handed to the importer while an earlier hand-over of the same hash is still in flight or has
//     succeeded ("each exactly once"; a retry after a FAILED import is allowed);
//   * its parent is already imported (ascending, gap-free from the local head);
//   * blocks offered outside [height-maxUncleDist, height+maxQueueDist] never reach the importer;
//   * every honestly offered block that extends the chain without a gap is eventually imported (watchdog).
// The fetcher itself does not check bodies against tx roots (InsertChain does); the recording importer rejects such blocks
// like the real chain, and the oracle demands that a wrong copy never ends up imported and never blocks the honest copy.
// Goroutine scheduling is not replayable: a scenario is run several times; a replay re-runs the scenario by name.

import (
	"fmt"
	"math/big"
	"strings"
	"sync"
	"time"

	"github.com/youchainhq/go-youchain/common"
	"github.com/youchainhq/go-youchain/core/types"
	"github.com/youchainhq/go-youchain/you/fetcher"
	"verifharness/internal/vh"
)

const (
	fMaxUncleDist = 7
	fMaxQueueDist = 32
	fBlockLimit   = 64
)

type fChain struct {
	mu        sync.Mutex
	blocks    map[common.Hash]*types.Block
	height    uint64
	inflight  map[common.Hash]int
	succeeded map[common.Hash]bool
	calls     int
	perHash   map[common.Hash]int
	viol      []string
	gate      bool
	entered   chan common.Hash
	release   chan struct{}
	dropped   []string
	forbidden map[common.Hash]string // hashes that must never reach the importer, with the reason
}

func newFChain(head *types.Block, gate bool) *fChain {
	return &fChain{blocks: map[common.Hash]*types.Block{head.Hash(): head}, height: head.NumberU64(), inflight: map[common.Hash]int{},
		succeeded: map[common.Hash]bool{}, perHash: map[common.Hash]int{}, gate: gate, entered: make(chan common.Hash, 4096), release: make(chan struct{}, 4096),
		forbidden: map[common.Hash]string{}}
}

func (c *fChain) getBlock(h common.Hash) *types.Block {
	c.mu.Lock()
	defer c.mu.Unlock()
	return c.blocks[h]
}

func (c *fChain) chainHeight() uint64 {
	c.mu.Lock()
	defer c.mu.Unlock()
	return c.height
}

func (c *fChain) violate(format string, a ...interface{}) {
	if len(c.viol) < 5 {
		c.viol = append(c.viol, fmt.Sprintf(format, a...))
	}
}

func (c *fChain) insertChain(bs types.Blocks) error {
	var bad error
	c.mu.Lock()
	for _, b := range bs {
		h := b.Hash()
		c.calls++
		c.perHash[h]++
		if c.inflight[h] > 0 {
			c.violate("block #%d handed to the importer again while its first import is still in flight (handed over %d times)", b.NumberU64(), c.perHash[h])
		} else if c.succeeded[h] {
			c.violate("block #%d handed to the importer again after it was imported (handed over %d times)", b.NumberU64(), c.perHash[h])
		}
		if c.blocks[b.ParentHash()] == nil {
			c.violate("block #%d handed to the importer before its parent was imported", b.NumberU64())
		}
		if why, ok := c.forbidden[h]; ok {
			c.violate("block #%d reached the importer although it was offered %s", b.NumberU64(), why)
		}
		c.inflight[h]++
	}
	c.mu.Unlock()
	if c.gate {
		for _, b := range bs {
			c.entered <- b.Hash()
		}
		<-c.release // a slow import
	}
	c.mu.Lock()
	for _, b := range bs {
		h := b.Hash()
		c.inflight[h]--
		if types.DeriveSha(b.Transactions()) != b.Header().TxHash || c.blocks[b.ParentHash()] == nil {
			bad = fmt.Errorf("invalid block") // what BlockChain.InsertChain does with a body that does not match
			continue
		}
		c.blocks[h] = b
		c.succeeded[h] = true
		if b.NumberU64() > c.height {
			c.height = b.NumberU64()
		}
	}
	c.mu.Unlock()
	return bad
}

func (c *fChain) has(h common.Hash) bool {
	c.mu.Lock()
	defer c.mu.Unlock()
	return c.succeeded[h]
}

func fMkChain(r *vh.RNG, head *types.Block, n int, salt byte) []*types.Block {
	out := make([]*types.Block, 0, n)
	parent := head
	for i := 0; i < n; i++ {
		var txs []*types.Transaction
		if r.Chance(60) {
			txs = mkTxs(r, r.Range(1, 2))
		}
		hd := &types.Header{Number: new(big.Int).SetUint64(parent.NumberU64() + 1), ParentHash: parent.Hash(), GasLimit: 1, Subsidy: big.NewInt(0), GasRewards: big.NewInt(0), Extra: []byte{salt}}
		b := types.NewBlock(hd, txs, nil)
		out = append(out, b)
		parent = b
	}
	return out
}

type fScenario struct {
	name string
	run  func(r *vh.RNG) string // "" = fine
}

func waitUntil(ms int, cond func() bool) bool {
	deadline := time.Now().Add(time.Duration(ms) * time.Millisecond)
	for time.Now().Before(deadline) {
		if cond() {
			return true
		}
		time.Sleep(3 * time.Millisecond)
	}
	return cond()
}

// fSetup starts a real fetcher over a fake chain.
func fSetup(r *vh.RNG, gate bool) (*fetcher.Fetcher, *fChain, *types.Block) {
	head := types.NewBlock(&types.Header{Number: big.NewInt(int64(r.Range(10, 500))), GasLimit: 1, Subsidy: big.NewInt(0), GasRewards: big.NewInt(0)}, nil, nil)
	c := newFChain(head, gate)
	f := fetcher.New(c.getBlock, func(*types.Header) error { return nil }, func(*types.Block, bool) {}, c.chainHeight, c.insertChain,
		func(id string) { c.mu.Lock(); c.dropped = append(c.dropped, id); c.mu.Unlock() })
	f.Start()
	return f, c, head
}

// verdict waits until every block of `must` is imported. An honest peer re-offers what is still missing every 100 ms: the
// fetcher may legitimately drop a block (e.g. tried while its parent's import was still running next to a sibling), and
// re-offers of blocks whose import is in flight are exactly what must not lead to a second hand-over.
func (c *fChain) verdict(f *fetcher.Fetcher, must []*types.Block, what string) string {
	last := time.Now()
	ok := waitUntil(3000, func() bool {
		all := true
		reoffer := time.Since(last) > 100*time.Millisecond
		for _, b := range must {
			if !c.has(b.Hash()) {
				all = false
				if reoffer {
					f.Enqueue("honest", b)
				}
			}
		}
		if reoffer {
			last = time.Now()
		}
		return all
	})
	time.Sleep(30 * time.Millisecond) // let a wrong second hand-over surface
	c.mu.Lock()
	defer c.mu.Unlock()
	if len(c.viol) > 0 {
		return strings.Join(c.viol, "; ")
	}
	if !ok {
		missing := 0
		first := uint64(0)
		for _, b := range must {
			if !c.succeeded[b.Hash()] {
				if missing == 0 {
					first = b.NumberU64()
				}
				missing++
			}
		}
		return fmt.Sprintf("%s: %d honestly offered, gap-free blocks were never imported (first missing #%d, chain height %d)", what, missing, first, c.height)
	}
	return ""
}

func fetcherScenarios() []fScenario {
	return []fScenario{
		{"same-block-from-two-peers-while-import-in-flight", func(r *vh.RNG) string {
			f, c, head := fSetup(r, true)
			defer f.Stop()
			bs := fMkChain(r, head, 3, 1)
			f.Enqueue("1", bs[0])
			select {
			case <-c.entered:
			case <-time.After(3 * time.Second):
				return "the first import never started"
			}
			f.Enqueue("2", bs[0]) // second copy while the first import is in flight
			f.Enqueue("3", bs[0])
			f.Enqueue("2", bs[1])
			select {
			case <-c.entered: // a second hand-over (violation recorded by the importer) or nothing
			case <-time.After(150 * time.Millisecond):
			}
			for i := 0; i < 16; i++ {
				c.release <- struct{}{}
			}
			f.Enqueue("1", bs[2])
			return c.verdict(f, bs, "duplicates while in flight")
		}},
		{"duplicate-storm-slow-importer", func(r *vh.RNG) string {
			f, c, head := fSetup(r, true)
			defer f.Stop()
			bs := fMkChain(r, head, 12, 2)
			var wg sync.WaitGroup
			for p := 1; p <= 3; p++ {
				wg.Add(1)
				rr := r.Fork()
				go func(p int) {
					defer wg.Done()
					for _, i := range perm(rr, len(bs)) {
						f.Enqueue(fmt.Sprint(p), bs[i])
						if rr.Chance(30) {
							time.Sleep(time.Millisecond)
						}
					}
				}(p)
			}
			stop := make(chan struct{})
			go func() { // the importer finishes one import every few ms
				for {
					select {
					case <-stop:
						return
					case c.release <- struct{}{}:
						time.Sleep(4 * time.Millisecond)
					}
				}
			}()
			wg.Wait()
			v := c.verdict(f, bs, "three peers delivering the same 12 blocks")
			close(stop)
			return v
		}},
		{"out-of-order-several-peers", func(r *vh.RNG) string {
			f, c, head := fSetup(r, false)
			defer f.Stop()
			bs := fMkChain(r, head, 25, 3)
			for _, i := range perm(r, len(bs)) {
				f.Enqueue(fmt.Sprint(1+r.Intn(3)), bs[i])
				if r.Chance(30) {
					f.Enqueue(fmt.Sprint(1+r.Intn(3)), bs[r.Intn(len(bs))]) // redelivery at a random time
				}
			}
			return c.verdict(f, bs, "25 blocks out of order")
		}},
		{"gap-then-filled", func(r *vh.RNG) string {
			f, c, head := fSetup(r, false)
			defer f.Stop()
			bs := fMkChain(r, head, 8, 4)
			for i, b := range bs {
				if i != 3 {
					f.Enqueue("1", b)
				}
			}
			if v := c.verdict(f, bs[:3], "blocks before the gap"); v != "" {
				return v
			}
			c.mu.Lock()
			for _, b := range bs[4:] {
				if c.perHash[b.Hash()] > 0 {
					c.violate("block #%d handed to the importer across a gap", b.NumberU64())
				}
			}
			c.mu.Unlock()
			f.Enqueue("2", bs[3])
			return c.verdict(f, bs, "after the gap was filled")
		}},
		{"too-far-ahead-and-behind", func(r *vh.RNG) string {
			f, c, head := fSetup(r, false)
			defer f.Stop()
			bs := fMkChain(r, head, fMaxQueueDist+12, 5)
			// grow the local chain by 10 first so that "behind" exists
			for _, b := range bs[:10] {
				f.Enqueue("1", b)
			}
			if v := c.verdict(f, bs[:10], "warm-up"); v != "" {
				return v
			}
			far := bs[10+fMaxQueueDist] // height+33
			c.mu.Lock()
			c.forbidden[far.Hash()] = fmt.Sprintf("%d blocks ahead of the head (> maxQueueDist)", far.NumberU64()-c.height)
			c.mu.Unlock()
			f.Enqueue("2", far)
			old := types.NewBlock(&types.Header{Number: new(big.Int).SetUint64(head.NumberU64() + 1), ParentHash: head.Hash(), GasLimit: 1, Subsidy: big.NewInt(0), GasRewards: big.NewInt(0), Extra: []byte{9}}, nil, nil)
			c.mu.Lock()
			c.forbidden[old.Hash()] = "more than maxUncleDist behind the head"
			c.mu.Unlock()
			f.Enqueue("2", old)            // a sibling 9 blocks behind the head
			edge := bs[10+fMaxQueueDist-1] // exactly height+32: accepted, imported once the gap closes
			f.Enqueue("3", edge)
			for _, b := range bs[10 : 10+fMaxQueueDist-1] {
				f.Enqueue("1", b)
			}
			return c.verdict(f, bs[:10+fMaxQueueDist], "blocks up to height+maxQueueDist")
		}},
		{"peer-exceeds-block-limit", func(r *vh.RNG) string {
			f, c, head := fSetup(r, false)
			defer f.Stop()
			bs := fMkChain(r, head, 6, 6)
			// 80 different blocks two ahead of the head from one peer: only blockLimit of them may be held
			for k := 0; k < fBlockLimit+16; k++ {
				sib := types.NewBlock(&types.Header{Number: new(big.Int).SetUint64(head.NumberU64() + 2), ParentHash: bs[0].Hash(), GasLimit: 1, Subsidy: big.NewInt(0), GasRewards: big.NewInt(0), Extra: []byte{7, byte(k)}}, nil, nil)
				f.Enqueue("9", sib)
			}
			for _, b := range bs {
				f.Enqueue("1", b)
			}
			return c.verdict(f, bs, "honest chain next to a peer exceeding its allowance")
		}},
		{"wrong-body-then-honest-copy", func(r *vh.RNG) string {
			f, c, head := fSetup(r, false)
			defer f.Stop()
			bs := fMkChain(r, head, 4, 8)
			wrong := bs[1].WithBody(&types.Body{Transactions: mkTxs(r, 2)}) // same header (hash), other transactions
			f.Enqueue("1", bs[0])
			f.Enqueue("2", wrong)
			waitUntil(1000, func() bool {
				c.mu.Lock()
				defer c.mu.Unlock()
				return c.perHash[wrong.Hash()] > 0 && c.inflight[wrong.Hash()] == 0
			})
			time.Sleep(20 * time.Millisecond)
			for _, b := range bs[1:] {
				f.Enqueue("1", b)
			}
			v := c.verdict(f, bs, "honest copy after a copy with a wrong body was rejected")
			if v == "" {
				if got := c.getBlock(bs[1].Hash()); got == nil || types.DeriveSha(got.Transactions()) != got.Header().TxHash {
					return "a block with a body that does not match its header ended up imported"
				}
			}
			return v
		}},
		{"announcements-fetched-honest-late-twice", func(r *vh.RNG) string {
			f, c, head := fSetup(r, false)
			defer f.Stop()
			bs := fMkChain(r, head, 5, 10)
			byHash := map[common.Hash]*types.Block{}
			for _, b := range bs {
				byHash[b.Hash()] = b
			}
			mk := func(peer string, kind int) func(common.Hash) error {
				return func(h common.Hash) error {
					b := byHash[h]
					switch kind {
					case 1: // late
						time.Sleep(120 * time.Millisecond)
					case 2: // twice
						go f.Enqueue(peer, b)
					}
					go f.Enqueue(peer, b)
					return nil
				}
			}
			now := time.Now()
			for i, b := range bs { // out of order, some announced by two peers
				j := (i*3 + 1) % len(bs)
				_ = b
				f.Notify("1", bs[j].Hash(), bs[j].NumberU64(), now, mk("1", i%3))
				if i%2 == 0 {
					f.Notify("2", bs[j].Hash(), bs[j].NumberU64(), now, mk("2", (i+1)%3))
				}
			}
			// an announcement far ahead is discarded and never fetched
			f.Notify("3", common.Hash{1}, head.NumberU64()+fMaxQueueDist+5, now, func(common.Hash) error {
				c.mu.Lock()
				c.violate("an announcement more than maxQueueDist ahead of the head was fetched")
				c.mu.Unlock()
				return nil
			})
			return c.verdict(f, bs, "announced blocks fetched from their announcers")
		}},
	}
}

func perm(r *vh.RNG, n int) []int {
	p := make([]int, n)
	for i := range p {
		p[i] = i
	}
	for i := n - 1; i > 0; i-- {
		j := r.Intn(i + 1)
		p[i], p[j] = p[j], p[i]
	}
	return p
}

func runFetcherScenario(name string, seed uint64, reps int) string {
	for _, sc := range fetcherScenarios() {
		if sc.name != name {
			continue
		}
		for k := 0; k < reps; k++ {
			if v := sc.run(vh.NewRNG(seed*131 + uint64(k))); v != "" {
				return v
			}
		}
		return ""
	}
	return "unknown fetcher scenario " + name
}

// runFetcherTier runs every scenario `reps` times (goroutine scheduling differs between runs).
func runFetcherTier(c *vh.Ctx) {
	res := c.Res
	reps := c.N(3, 25)
	for _, sc := range fetcherScenarios() {
		journal(fmt.Sprintf("FETCHER %s %d", sc.name, c.Seed))
		v := runFetcherScenario(sc.name, c.Seed, reps)
		res.DistN("fetcher-scenario-runs", reps)
		res.Count(fmt.Sprintf("FETCHER %s %d", sc.name, c.Seed), true)
		if v != "" {
			rp := vh.WriteReplay(c.ReplayDir, "C18", fmt.Sprintf("fetcher-s%d-%s", c.Seed, sc.name), c.Seed,
				[]string{"oracle (announcement/propagation path, real you/fetcher.Fetcher): " + v,
					"goroutine scheduling is not replayable: the replay re-runs the scenario 25 times"},
				[]string{fmt.Sprintf("FETCHER %s %d", sc.name, c.Seed)})
			res.Fail("oracle", "", "fetcher scenario "+sc.name+": "+v, rp)
		}
	}
}
