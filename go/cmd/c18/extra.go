package main

// Further oracle-level streams on real code:
//   * skeleton fill: queue.ScheduleSkeleton / ReserveHeaders / DeliverHeaders with a GATED consumer of headerProcCh
//     (hook VerifSkeletonFill); oracle: what the header processor receives on headerProcCh followed by
//     RetrieveHeaders()[proced:] is exactly the honest header list — in order, once, no gap — and Schedule accepts all of it;
//   * peer capacities: scripts of Register / Unregister / Reset / SetIdle on a real PeerSet (hook VerifCapacityScript);
//     oracle: every capacity of every peer is >= 1 and bounded and every throughput finite after every step;
//   * a journal of the input about to be run (C18-last-input.replay) so that a process death leaves its replay behind.

import (
	"fmt"
	"math/big"
	"os"
	"strconv"
	"strings"

	"github.com/youchainhq/go-youchain/common"
	"github.com/youchainhq/go-youchain/core/types"
	"github.com/youchainhq/go-youchain/you/downloader"
	"verifharness/internal/vh"
)

var journalPath string

// journal records the input that is about to be handed to real code.
func journal(lines ...string) {
	if journalPath == "" {
		return
	}
	os.WriteFile(journalPath, []byte("# property C18\n# the harness process died while running this input\n"+strings.Join(lines, "\n")+"\n"), 0o644)
}

// ---- skeleton fill -----------------------------------------------------------------------------------------

type skelCase struct {
	name  string
	seed  uint64
	n     int
	from  uint64
	ends  []int
	order []int
	bad   []bool
	reads []int
}

func ints(xs []int) string {
	if len(xs) == 0 {
		return "-"
	}
	return strings.Join(strs(xs), ",")
}

func parseInts(s string) []int {
	var out []int
	for _, f := range strings.Split(s, ",") {
		if f != "" && f != "-" {
			v, _ := strconv.Atoi(f)
			out = append(out, v)
		}
	}
	return out
}

func (k skelCase) line() string {
	var b []int
	for _, x := range k.bad {
		if x {
			b = append(b, 1)
		} else {
			b = append(b, 0)
		}
	}
	return fmt.Sprintf("SKEL %s %d %d %d %s %s %s %s", k.name, k.seed, k.n, k.from, ints(k.ends), ints(k.order), ints(b), ints(k.reads))
}

func parseSkel(l string) (skelCase, error) {
	f := strings.Fields(l)
	if len(f) != 9 || f[0] != "SKEL" {
		return skelCase{}, fmt.Errorf("bad SKEL line")
	}
	k := skelCase{name: f[1]}
	k.seed, _ = strconv.ParseUint(f[2], 10, 64)
	k.n, _ = strconv.Atoi(f[3])
	k.from, _ = strconv.ParseUint(f[4], 10, 64)
	k.ends, k.order, k.reads = parseInts(f[5]), parseInts(f[6]), parseInts(f[8])
	for _, x := range parseInts(f[7]) {
		k.bad = append(k.bad, x != 0)
	}
	return k, nil
}

func skelHeaders(k skelCase) []*types.Header {
	r := vh.NewRNG(k.seed ^ 0x5CE1)
	var hs []*types.Header
	var parent common.Hash
	copy(parent[:], r.Bytes(32))
	for i := 0; i < k.n; i++ {
		h := mkHeader(new(big.Int).SetUint64(k.from+uint64(i)), parent, nil, nil, []byte{byte(i)})
		hs = append(hs, h)
		parent = h.Hash()
	}
	return hs
}

func runSkel(k skelCase) string {
	if len(k.ends) == 0 || k.ends[len(k.ends)-1] != k.n-1 || len(k.order) != len(k.ends) {
		return ""
	}
	hs := skelHeaders(k)
	res := downloader.VerifSkeletonFill(downloader.VerifSkeletonConfig{From: k.from, Headers: hs, RangeEnds: k.ends, Order: k.order, BadFirst: k.bad, ReadAfter: k.reads})
	if res.Panic != "" {
		return "crash: skeleton fill panicked: " + res.Panic
	}
	var stream []*types.Header
	for _, b := range res.Batches {
		stream = append(stream, b...)
	}
	if res.Proced < 0 || res.Proced > len(res.Filled) {
		return fmt.Sprintf("RetrieveHeaders returned proced=%d for %d headers", res.Proced, len(res.Filled))
	}
	stream = append(stream, res.Filled[res.Proced:]...)
	for i, h := range stream {
		if h == nil {
			return fmt.Sprintf("the header stream (headerProcCh batches + RetrieveHeaders()[proced:]) has a hole at position %d: headers counted as forwarded were never sent (lost)", i)
		}
		if i >= len(hs) || h.Hash() != hs[i].Hash() {
			want := "nothing"
			if i < len(hs) {
				want = fmt.Sprint(hs[i].Number)
			}
			return fmt.Sprintf("header stream position %d carries header number %v, expected %s: the stream handed to Schedule is not the honest chain in order, once, gap-free (%d of %d headers arrived)", i, h.Number, want, len(stream), len(hs))
		}
	}
	if len(stream) != len(hs) {
		return fmt.Sprintf("only %d of %d honestly delivered headers reached the header processor (batches on headerProcCh: %d headers, RetrieveHeaders proced=%d of %d): a gap, so Schedule rejects the rest and the sync aborts", len(stream), len(hs), len(stream)-(len(res.Filled)-res.Proced), res.Proced, len(res.Filled))
	}
	downloader.VerifSetLimits(8192, 64*1024*1024, 2048)
	if got := downloader.VerifNewQueue(k.from, downloader.FullSync).Schedule(stream, k.from); len(got) != len(hs) {
		return fmt.Sprintf("Schedule accepted %d of %d headers of the assembled stream", len(got), len(hs))
	}
	return ""
}

func evenEnds(n, ranges int) []int {
	var out []int
	for i := 1; i <= ranges; i++ {
		out = append(out, i*n/ranges-1)
	}
	return out
}

func skelCases(c *vh.Ctx) []skelCase {
	cs := []skelCase{
		{name: "processor-keeps-up", seed: 1, n: 12, from: 5, ends: evenEnds(12, 3), order: []int{0, 1, 2}, reads: []int{1, 1, 1}},
		{name: "processor-gated-back-to-back-ranges", seed: 2, n: 12, from: 5, ends: evenEnds(12, 3), order: []int{0, 1, 2}, reads: []int{0, 0, 0}},
		{name: "processor-gated-then-released", seed: 3, n: 40, from: 100, ends: evenEnds(40, 5), order: []int{0, 1, 2, 3, 4}, reads: []int{0, 0, 1, 0, 0}},
		{name: "ranges-complete-out-of-order-gated", seed: 4, n: 30, from: 1, ends: evenEnds(30, 5), order: []int{2, 0, 1, 4, 3}, reads: []int{0, 0, 0, 0, 0}},
		{name: "rejected-short-answer-then-honest", seed: 5, n: 24, from: 9, ends: evenEnds(24, 4), order: []int{0, 1, 2, 3}, bad: []bool{false, true, false, true}, reads: []int{0, 0, 1, 0}},
	}
	r := c.R.Fork()
	for i := 0; i < c.N(25, 600); i++ {
		ranges := r.Range(1, 8)
		n := ranges * r.Range(1, 12)
		k := skelCase{name: fmt.Sprintf("random-%d", i), seed: r.U64() % 1000000007, n: n, from: uint64(r.Range(1, 5000)), ends: evenEnds(n, ranges), order: perm(r, ranges)}
		if r.Chance(60) {
			k.order = seq(0, ranges)
		}
		for j := 0; j < ranges; j++ {
			k.bad = append(k.bad, r.Chance(15))
			k.reads = append(k.reads, []int{0, 0, 0, 1, 1, 2}[r.Intn(6)])
		}
		cs = append(cs, k)
	}
	return cs
}

// ---- capacities ----------------------------------------------------------------------------------------------

func capLine(ops []downloader.VerifCapOp) string {
	var p []string
	for _, o := range ops {
		p = append(p, fmt.Sprintf("%s/%s/%s/%d", o.Op, o.Peer, o.Kind, o.Delivered))
	}
	return "CAP " + strings.Join(p, ";")
}

func parseCap(l string) []downloader.VerifCapOp {
	var ops []downloader.VerifCapOp
	for _, p := range strings.Split(strings.TrimPrefix(l, "CAP "), ";") {
		f := strings.Split(p, "/")
		if len(f) == 4 {
			d, _ := strconv.Atoi(f[3])
			ops = append(ops, downloader.VerifCapOp{Op: f[0], Peer: f[1], Kind: f[2], Delivered: d})
		}
	}
	return ops
}

func runCap(ops []downloader.VerifCapOp) string {
	for _, row := range downloader.VerifCapacityScript(ops, 2000) {
		o := ops[row.Step]
		at := fmt.Sprintf("after step %d (%s %s %s %d)", row.Step, o.Op, o.Peer, o.Kind, o.Delivered)
		if !row.Finite {
			return fmt.Sprintf("%s peer %s has a throughput that is not a finite number (NaN/Inf): it can never be sized a request", at, row.Peer)
		}
		for name, v := range map[string]int{"block": row.BlockCap, "receipt": row.ReceiptCap, "node data": row.StateCap} {
			if v < 1 || v > 4096 {
				return fmt.Sprintf("%s peer %s has %s capacity %d (must be >= 1 and bounded): reservations for it get a non-positive count", at, row.Peer, name, v)
			}
		}
	}
	return ""
}

func capScripts(c *vh.Ctx) [][]downloader.VerifCapOp {
	op := func(o, p, k string, d int) downloader.VerifCapOp {
		return downloader.VerifCapOp{Op: o, Peer: p, Kind: k, Delivered: d}
	}
	out := [][]downloader.VerifCapOp{
		{op("register", "1", "", 0), op("register", "2", "", 0)},                                                                                     // joiner while nobody was measured
		{op("register", "1", "", 0), op("setidle", "1", "body", 40), op("register", "2", "", 0), op("reset", "", "", 0), op("register", "3", "", 0)}, // joiner right after the per-cycle reset
		{op("register", "1", "", 0), op("setidle", "1", "body", 30), op("setidle", "1", "body", 0), op("register", "2", "", 0)},                      // joiner after everybody was demoted by a timeout
		{op("register", "1", "", 0), op("setidle", "1", "receipt", 9), op("setidle", "1", "state", 7), op("setidle", "1", "header", 100), op("register", "2", "", 0), op("unregister", "1", "", 0), op("register", "3", "", 0)},
	}
	r := c.R.Fork()
	kinds := []string{"header", "body", "receipt", "state"}
	for i := 0; i < c.N(40, 1000); i++ {
		var ops []downloader.VerifCapOp
		for j := 0; j < r.Range(2, 14); j++ {
			p := strconv.Itoa(1 + r.Intn(4))
			switch r.Intn(6) {
			case 0, 1:
				ops = append(ops, op("register", p, "", 0))
			case 2:
				ops = append(ops, op("unregister", p, "", 0))
			case 3:
				ops = append(ops, op("reset", "", "", 0))
			default:
				ops = append(ops, op("setidle", p, kinds[r.Intn(4)], []int{0, 0, 1, 5, 128, 1000}[r.Intn(6)]))
			}
		}
		out = append(out, ops)
	}
	return out
}

// ---- tier ----------------------------------------------------------------------------------------------------

func runExtraTier(c *vh.Ctx) {
	res := c.Res
	for _, k := range skelCases(c) {
		journal(k.line())
		res.Dist("skeleton-fill-cases")
		gated := false
		for _, x := range k.reads {
			if x == 0 {
				gated = true
			}
		}
		if gated {
			res.Dist("skeleton-fill-cases-with-gated-processor")
		}
		res.Count(k.line(), len(k.ends) >= 2)
		if v := runSkel(k); v != "" {
			kind := "oracle"
			if strings.HasPrefix(v, "crash") {
				kind = "crash"
			}
			rp := vh.WriteReplay(c.ReplayDir, "C18", fmt.Sprintf("skeleton-s%d-%s", c.Seed, k.name), c.Seed, []string{kind + " (skeleton header fill, real queue.DeliverHeaders with a gated headerProcCh consumer): " + v}, []string{k.line()})
			res.Fail(kind, "", "skeleton fill "+k.name+": "+v, rp)
			break
		}
	}
	for i, ops := range capScripts(c) {
		journal(capLine(ops))
		res.Dist("capacity-scripts")
		res.Count(capLine(ops), len(ops) >= 2)
		if v := runCap(ops); v != "" {
			rp := vh.WriteReplay(c.ReplayDir, "C18", fmt.Sprintf("capacity-s%d-%d", c.Seed, i), c.Seed, []string{"oracle (peer capacities on a real PeerSet): " + v}, []string{capLine(ops)})
			res.Fail("oracle", "", "peer capacities: "+v, rp)
			break
		}
	}
}
