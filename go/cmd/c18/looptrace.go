package main

import (
	"github.com/youchainhq/go-youchain/core/types"
	"github.com/youchainhq/go-youchain/you/downloader"
)

// compareLoopTrace is filled in by the trace comparison (model `tick`); "" = agreement.
var compareLoopTrace = func(sc loopScenario, hs []*types.Header, res *downloader.VerifLoopResult, drvPath string) string {
	return ""
}
