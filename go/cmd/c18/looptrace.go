package main

// Replays the callback sequence recorded from the real fetchParts loop into the Lean model: queue operations
// (Schedule, DeliverBodies, Results) as ordinary ops, and every pass of the loop's `update` branch as one model
// `tick` whose inputs are what the loop saw from outside the queue (overdue requests, registered/idle peers and
// capacities). Compared per tick: the ORDER and content of the actions (expire → setIdle/drop → pending →
// inFlight → idle → (throttle, pending, reserve)* → pending), the outcome, and the canonical queue dump.

import (
	"fmt"
	"regexp"
	"sort"
	"strconv"
	"strings"

	"github.com/youchainhq/go-youchain/common"
	"github.com/youchainhq/go-youchain/core/types"
	"github.com/youchainhq/go-youchain/you/downloader"
	"verifharness/internal/vh"
)

// ticksCompared counts the model ticks compared against real passes (evidence only).
var ticksCompared, callsCompared int

var lackRe = regexp.MustCompile(` lack=\[[^\]]*\]`)

func stripLack(s string) string { return lackRe.ReplaceAllString(s, "") }

func atoi(s string) int { v, _ := strconv.Atoi(s); return v }

func compareLoopTrace(sc loopScenario, hs []*types.Header, res *downloader.VerifLoopResult, drvPath string) string {
	drv, err := vh.StartDriver(drvPath)
	if err != nil {
		return "cannot start the model driver: " + err.Error()
	}
	defer drv.Close()
	u := &universe{n: len(hs), hcache: map[*types.Header]common.Hash{}, byHash: map[common.Hash]int{}, hashIDs: map[common.Hash]int{{}: 0}, rootIDs: map[common.Hash]int{types.EmptyRootHash: 0}}
	e := &execT{u: u}
	limit := res.Limit
	ask := func(l string) string {
		s, aerr := drv.Ask(l)
		if aerr != nil {
			return "driver-error " + aerr.Error()
		}
		return s
	}
	ask(fmt.Sprintf("I %d 2048 0 %d", sc.cacheLen, sc.origin))
	var hl []string
	for _, h := range hs {
		hl = append(hl, u.hline(h))
	}
	ask(fmt.Sprintf("S %d %d %d %s", limit, sc.origin, len(hs), strings.Join(hl, " ")))
	evs := res.Events
	// index of the last E event (the pass after which the loop returned)
	lastE := -1
	for i, ev := range evs {
		if ev.Kind == "E" {
			lastE = i
		}
	}
	mismatch := func(i int, what, goS, leanS string) string {
		return fmt.Sprintf("fetch loop, recorded call #%d: %s\n  go:   %s\n  lean: %s", i, what, diffHint(goS, leanS), diffHint(leanS, goS))
	}
	for i := 0; i < len(evs); {
		ev := evs[i]
		switch ev.Kind {
		case "X":
			var parts []string
			for _, r := range ev.Results {
				parts = append(parts, fmt.Sprintf("%d/%d/%d", u.hid(u.hashOf(r.Header)), u.rid(types.DeriveSha(r.Transactions)), u.rid(types.DeriveSha(r.Receipts))))
			}
			goS := stripLack("res=" + strings.Join(parts, ",") + " # " + e.dumpStr(ev.Dump))
			if leanS := stripLack(ask(fmt.Sprintf("X %d", limit))); leanS != goS {
				return mismatch(i, "Results differs", goS, leanS)
			}
			i++
		case "D":
			var roots []string
			for _, l := range ev.Lists {
				roots = append(roots, strconv.Itoa(u.rid(types.DeriveSha(types.Transactions(l)))))
			}
			goS := stripLack(fmt.Sprintf("acc=%d err=%s # %s", ev.N, ev.Err, e.dumpStr(ev.Dump)))
			if leanS := stripLack(ask(fmt.Sprintf("DB %d %s %d %s", limit, ev.Peer, len(roots), strings.Join(roots, " ")))); leanS != goS {
				return mismatch(i, "DeliverBodies differs", goS, leanS)
			}
			i++
			for i < len(evs) && evs[i].Kind == "SI" { // setIdle after a delivery
				i++
			}
		case "E":
			j := i + 1
			for j < len(evs) && evs[j].Kind != "E" && evs[j].Kind != "D" && evs[j].Kind != "X" {
				j++
			}
			pass := evs[i:j]
			// inputs of the tick
			type pc struct{ p, c int }
			var over []pc
			var known []int
			for k, id := range ev.Ids {
				over = append(over, pc{atoi(id), ev.Counts[k]})
				if ev.Known[k] {
					known = append(known, atoi(id))
				}
			}
			sort.Slice(over, func(a, b int) bool { return over[a].p < over[b].p })
			sort.Ints(known)
			var idle []string
			total := 0
			var acts, hacts []string
			var es []string
			for _, o := range over {
				es = append(es, fmt.Sprintf("%d:%d", o.p, o.c))
			}
			acts = append(acts, "E["+strings.Join(es, ",")+"]")
			lastDump := ev.Dump
			type ha struct {
				p int
				s string
			}
			var hs2 []ha
			for _, pe := range pass[1:] {
				switch pe.Kind {
				case "SI":
					hs2 = append(hs2, ha{atoi(pe.Peer), "SI" + pe.Peer})
				case "DP":
					hs2 = append(hs2, ha{atoi(pe.Peer), "DP" + pe.Peer})
				case "P":
					hacts = append(hacts, fmt.Sprintf("P%d", pe.N))
				case "I":
					hacts = append(hacts, "I"+b01(pe.B))
				case "T":
					hacts = append(hacts, "T"+b01(pe.B))
				case "L":
					total = pe.N
					for k, id := range pe.Ids {
						idle = append(idle, id, strconv.Itoa(pe.Counts[k]))
					}
					hacts = append(hacts, "L["+strings.Join(pe.Ids, ",")+"]")
				case "R":
					r := "nil"
					if pe.Request != nil {
						r = e.hdrsInOrder(pe.Request)
					}
					hacts = append(hacts, fmt.Sprintf("R%s/%d/%s/%s/%s", pe.Peer, pe.N, r, b01(pe.B), pe.Err))
					lastDump = pe.Dump
				}
			}
			sort.SliceStable(hs2, func(a, b int) bool { return hs2[a].p < hs2[b].p })
			for _, h := range hs2 {
				acts = append(acts, h.s)
			}
			acts = append(acts, hacts...)
			isLast := i == lastE
			fin := 0
			if sc.finishedAt == 0 || isLast {
				fin = 1
			}
			out := "cont"
			if isLast && res.Completed && res.Err == "" {
				out = "done"
			}
			var ovs, kns []string
			for _, o := range over {
				ovs = append(ovs, strconv.Itoa(o.p))
			}
			for _, k := range known {
				kns = append(kns, strconv.Itoa(k))
			}
			line := strings.Join(strings.Fields(fmt.Sprintf("K %d %d %d 1 %d %d %s %d %s %d %s", limit, fin, ev.NumPeers, total,
				len(ovs), strings.Join(ovs, " "), len(kns), strings.Join(kns, " "), len(idle)/2, strings.Join(idle, " "))), " ")
			goS := stripLack(strings.Join(acts, " ") + " out=" + out + " # " + e.dumpStr(lastDump))
			if leanS := stripLack(ask(line)); leanS != goS {
				return mismatch(i, "one pass of the loop (tick) differs from the model's order of actions: expire -> setIdle/drop -> pending -> inFlight -> idle -> (throttle, pending, reserve)* -> pending", goS, leanS)
			}
			ticksCompared++
			callsCompared += len(pass)
			i = j
		default:
			// a queue callback that is not part of a pass starting with the expiry scan
			return fmt.Sprintf("fetch loop, recorded call #%d: callback %q (n=%d, b=%v) was made before the expiry scan of its tick — the model's tick always starts with expire", i, ev.Kind, ev.N, ev.B)
		}
	}
	return ""
}
