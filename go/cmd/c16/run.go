package main

import (
	"fmt"
	"math/big"
	"sort"
	"strings"

	"github.com/youchainhq/go-youchain/common"
	"github.com/youchainhq/go-youchain/params"

	"verifharness/internal/quiet"
	"verifharness/internal/vh"
)

// ---- Lean side -------------------------------------------------------------------------------------

func constLine() string {
	kv := []struct {
		k string
		v uint64
	}{{"CallGas", params.CallGas}, {"CallValueTransferGas", params.CallValueTransferGas}, {"CallNewAccountGas", params.CallNewAccountGas},
		{"CallStipend", params.CallStipend}, {"CreateGas", params.CreateGas}, {"Create2Gas", params.Create2Gas}, {"CreateDataGas", params.CreateDataGas},
		{"MaxCodeSize", params.MaxCodeSize}, {"SelfdestructGas", params.SelfdestructGas}, {"CreateBySelfdestructGas", params.CreateBySelfdestructGas},
		{"SuicideRefundGas", params.SuicideRefundGas}, {"LogGas", params.LogGas}, {"LogTopicGas", params.LogTopicGas},
		{"SstoreSentryGas", params.SstoreSentryGas}, {"SstoreNoopGas", params.SstoreNoopGas}, {"SstoreDirtyGas", params.SstoreDirtyGas},
		{"SstoreInitGas", params.SstoreInitGas}, {"SstoreCleanGas", params.SstoreCleanGas}, {"SstoreInitRefund", params.SstoreInitRefund},
		{"SstoreCleanRefund", params.SstoreCleanRefund}, {"SstoreClearRefund", params.SstoreClearRefund}, {"CallCreateDepth", params.CallCreateDepth},
		{"EcrecoverGas", params.EcrecoverGas}, {"Sha256BaseGas", params.Sha256BaseGas}, {"Ripemd160BaseGas", params.Ripemd160BaseGas}, {"IdentityBaseGas", params.IdentityBaseGas}}
	l := "CONST"
	for _, x := range kv {
		l += fmt.Sprintf(" %s=%d", x.k, x.v)
	}
	return l
}

// fine-grained outcome kinds as the model names them (the tracer cannot tell the evm.go-level failures apart)
var modelKinds = map[string]int{}

type leanTx struct {
	class   string
	gasLeft string
	ret     string
	events  []string
	raw     string
}

func parseLeanTx(s string) leanTx {
	t := leanTx{raw: s}
	for _, f := range strings.Fields(s) {
		kv := strings.SplitN(f, "=", 2)
		if len(kv) != 2 {
			continue
		}
		switch kv[0] {
		case "out":
			t.class = kv[1]
		case "gas":
			t.gasLeft = kv[1]
		case "ret":
			t.ret = kv[1]
		case "tr":
			if kv[1] != "-" {
				t.events = strings.Split(kv[1], ",")
			}
		}
	}
	return t
}

func coarse(class string) string {
	switch class {
	case "err-depth", "err-balance", "err-collision", "err-codestore", "err-maxcode":
		return "err-evm"
	}
	return class
}

// leanEventNorm brings a model event "depth:tag:out:gas:addr" to the form the tracer can observe.
func leanEventNorm(e string) string {
	f := strings.Split(e, ":")
	if len(f) != 6 {
		return e
	}
	f[2] = coarse(f[2])
	if isPrecompileHex(f[5]) && f[2] == "err-oog" {
		f[2] = "err-evm" // a precompile that runs out of gas fails outside the interpreter: the tracer sees no error
	}
	if f[1] == "4" || f[1] == "5" {
		f[3] = "-" // the tracer sees the creator's gas after the operation, not the split
		if f[2] != "ok" {
			f[5] = ah(common.Address{}) // a failed create shows no address
		}
	}
	return strings.Join(f, ":")
}

func isPrecompileHex(a string) bool {
	for n := uint64(1); n <= 4; n++ {
		if a == ah(addrN(n)) {
			return true
		}
	}
	return false
}

func goEvent(e event) string {
	ret := u(e.returned)
	if e.tag >= 4 {
		ret = "-"
	}
	return fmt.Sprintf("%d:%d:%s:%s:%d:%s", e.depth, e.tag, e.class, ret, e.after, ah(e.addr))
}

func addrList(a []common.Address) string {
	var s []string
	for _, x := range a {
		s = append(s, ah(x))
	}
	return strings.Join(s, ",")
}

func slotList(s []uint64) string {
	if len(s) == 0 {
		return "-"
	}
	var o []string
	for _, x := range s {
		o = append(o, u(x))
	}
	return strings.Join(o, ",")
}

// compareWithModel replays the case on the Lean model and returns the disagreements.
func compareWithModel(c *testCase, g *caseResult, drv *vh.Driver) (diffs []string, traces int, err error) {
	ask := func(l string) string {
		if err != nil {
			return ""
		}
		var s string
		s, err = drv.Ask(l)
		return s
	}
	bad := false
	if s := ask("RESET"); s != "ok" && err == nil {
		return nil, 0, fmt.Errorf("driver RESET: %s", s)
	}
	for _, a := range c.accts {
		code := "-"
		if a.body != nil {
			b, _ := assemble(c, a.body, 0, &bad)
			code = fmt.Sprintf("%x", b)
		}
		l := fmt.Sprintf("ACCT %s %d %d %s", ah(a.addr), a.nonce, a.bal, code)
		for _, k := range sortedKeys(a.storage) {
			l += fmt.Sprintf(" %d=%d", k, a.storage[k])
		}
		if s := ask(l); s != "ok" && err == nil {
			return nil, 0, fmt.Errorf("driver ACCT: %s", s)
		}
	}
	for i, t := range c.txs {
		if i >= len(g.txs) {
			break
		}
		gt := g.txs[i]
		var line string
		if t.create {
			_, l := assemble(c, t.init, 0, &bad)
			line = fmt.Sprintf("TXCREATE %s %d %d %s", ah(t.origin), t.value, t.gas, strings.Join(l, " "))
		} else {
			line = fmt.Sprintf("TXCALL %s %s %d %d %s", ah(t.origin), ah(t.to), t.value, t.gas, strings.Join(calleeLean(c, t.to, 0, &bad), " "))
		}
		resp := ask(line)
		if err != nil {
			return
		}
		if resp == "bad-op" {
			return nil, 0, fmt.Errorf("driver rejected %q", line[:min(len(line), 200)])
		}
		if gt.panicMsg != "" {
			// the real code panicked: nothing to compare for this transaction (reported by the caller)
			break
		}
		lt := parseLeanTx(resp)
		traces++
		if coarse(lt.class) != gt.class {
			diffs = append(diffs, fmt.Sprintf("tx %d outcome: go=%s lean=%s", i, gt.class, lt.class))
		}
		if lt.gasLeft != u(gt.gasLeft) {
			diffs = append(diffs, fmt.Sprintf("tx %d gas left: go=%d lean=%s", i, gt.gasLeft, lt.gasLeft))
		}
		gret := "-"
		if len(gt.ret) > 0 {
			gret = fmt.Sprintf("%x", gt.ret)
		}
		if lt.ret != gret {
			diffs = append(diffs, fmt.Sprintf("tx %d return data: go=%.80s lean=%.80s", i, gret, lt.ret))
		}
		var ge, le []string
		for _, e := range gt.events {
			ge = append(ge, goEvent(e))
		}
		for _, e := range lt.events {
			le = append(le, leanEventNorm(e))
			if f := strings.Split(e, ":"); len(f) == 6 {
				modelKinds["model-frame-"+f[2]]++
			}
		}
		modelKinds["model-tx-"+lt.class]++
		if strings.Join(ge, ",") != strings.Join(le, ",") {
			k := 0
			for k < len(ge) && k < len(le) && ge[k] == le[k] {
				k++
			}
			gs, ls := "<none>", "<none>"
			if k < len(ge) {
				gs = ge[k]
			}
			if k < len(le) {
				ls = le[k]
			}
			diffs = append(diffs, fmt.Sprintf("tx %d frame trace differs at frame #%d (of go %d / lean %d): go=%s lean=%s", i, k, len(ge), len(le), gs, ls))
		}
		dl := fmt.Sprintf("DUMP %s %s", addrList(gt.uni), slotList(g.slots))
		if d := ask(dl); err == nil && d != strings.Join(gt.dump, " ") {
			diffs = append(diffs, fmt.Sprintf("tx %d state after execution: %s", i, firstDiff(strings.Join(gt.dump, " "), d)))
		}
		ask("FINAL")
		if d := ask(dl); err == nil && d != strings.Join(gt.dumpFin, " ") {
			diffs = append(diffs, fmt.Sprintf("tx %d state after Finalise: %s", i, firstDiff(strings.Join(gt.dumpFin, " "), d)))
		}
		if len(diffs) > 0 {
			break // later transactions run on diverged states
		}
	}
	return
}

func firstDiff(g, l string) string {
	gf, lf := strings.Fields(g), strings.Fields(l)
	for i := 0; i < len(gf) && i < len(lf); i++ {
		if gf[i] != lf[i] {
			return fmt.Sprintf("go=%.160s lean=%.160s", gf[i], lf[i])
		}
	}
	return fmt.Sprintf("go has %d entries, lean %d", len(gf), len(lf))
}

// ---- verdict on one case -----------------------------------------------------------------------------

type verdict struct {
	kind    string // "", correspondence, oracle, crash
	matcher string
	what    string
}

// ghostBalances: accounts that an earlier transaction left self-destructed with a non-zero balance (deleted
// by Finalise with the balance still in the cached object) — the precondition of known finding F-C16a.
func ghostBalances(g *caseResult, upto int) map[string]bool {
	m := map[string]bool{}
	for i := 0; i < upto && i < len(g.txs); i++ {
		for _, l := range g.txs[i].dump {
			f := strings.Split(l, ":")
			if len(f) == 7 && f[1] == "1" && f[5] == "1" && f[3] != "0" {
				m[f[0]] = true
			}
		}
	}
	return m
}

// evaluate runs the case on the real code and the model and classifies the first problem.
func evaluate(c *testCase, drv *vh.Driver) (verdict, *caseResult, int, error) {
	g, fatal := runGo(c, true)
	if fatal != "" {
		return verdict{kind: "invalid", what: fatal}, g, 0, nil
	}
	for i, t := range g.txs {
		for _, vi := range t.viol {
			v := verdict{kind: "oracle", what: fmt.Sprintf("tx %d: %s: %s", i, vi.oracle, vi.what)}
			if gh := ghostBalances(g, i); len(gh) > 0 && (vi.oracle == "balance_conserved" || vi.oracle == "static_changes_nothing" || vi.oracle == "failed_frame_no_trace") {
				// F-C16a: every account whose observation changed is such a ghost (or, for the sum, ghosts exist)
				only := vi.oracle == "balance_conserved"
				if !only {
					only = true
					for _, part := range strings.Split(vi.what, "; ") {
						if k := strings.Index(part, "before "); k >= 0 {
							a := strings.SplitN(part[k+7:], ":", 2)[0]
							if !gh[a] {
								only = false
							}
						}
					}
				}
				if only {
					v.matcher = "deleted-balance-resurrected"
				}
			}
			return v, g, 0, nil
		}
		if t.panicMsg != "" {
			v := verdict{kind: "crash", what: fmt.Sprintf("tx %d: the real EVM/StateDB panicked: %s", i, t.panicMsg)}
			if strings.Contains(t.panicMsg, "cannot be reverted") {
				v.matcher = "c09-revision-panic"
			}
			return v, g, 0, nil
		}
	}
	if drv == nil {
		return verdict{}, g, 0, nil
	}
	diffs, traces, err := compareWithModel(c, g, drv)
	if err != nil {
		return verdict{}, g, traces, err
	}
	if len(diffs) > 0 {
		return verdict{kind: "correspondence", what: strings.Join(diffs, " | ")}, g, traces, nil
	}
	return verdict{}, g, traces, nil
}

// ---- shrinking -----------------------------------------------------------------------------------------

func cloneBody(b []step) []step {
	if b == nil {
		return nil
	}
	o := make([]step, len(b))
	for i, s := range b {
		o[i] = s
		o[i].topics = append([]uint64(nil), s.topics...)
		o[i].data = append([]byte(nil), s.data...)
		o[i].init = cloneBody(s.init)
	}
	return o
}

func (c *testCase) clone() *testCase {
	n := &testCase{extra: append([]common.Address(nil), c.extra...)}
	for _, a := range c.accts {
		b := *a
		b.storage = map[uint64]uint64{}
		for k, v := range a.storage {
			b.storage[k] = v
		}
		b.body = cloneBody(a.body)
		n.accts = append(n.accts, &b)
	}
	for _, t := range c.txs {
		t.init = cloneBody(t.init)
		n.txs = append(n.txs, t)
	}
	return n
}

// bodies returns pointers to every step list of the case (contract bodies, init codes, nested ones).
func (c *testCase) bodies() []*[]step {
	var out []*[]step
	var walk func(b *[]step)
	walk = func(b *[]step) {
		out = append(out, b)
		for i := range *b {
			if (*b)[i].init != nil {
				walk(&(*b)[i].init)
			}
		}
	}
	for _, a := range c.accts {
		if a.body != nil {
			walk(&a.body)
		}
	}
	for i := range c.txs {
		if c.txs[i].create {
			walk(&c.txs[i].init)
		}
	}
	return out
}

func shrinkCase(c *testCase, same func(*testCase) bool) *testCase {
	cur := c
	for progress := true; progress; {
		progress = false
		// drop a transaction (never all)
		for i := 0; i < len(cur.txs) && len(cur.txs) > 1; i++ {
			n := cur.clone()
			n.txs = append(n.txs[:i], n.txs[i+1:]...)
			if same(n) {
				cur, progress = n, true
				i--
			}
		}
		// drop the code of a contract
		for i := range cur.accts {
			if cur.accts[i].body == nil {
				continue
			}
			n := cur.clone()
			n.accts[i].body = nil
			if same(n) {
				cur, progress = n, true
			}
		}
		// drop single steps
		for bi := 0; bi < len(cur.bodies()); bi++ {
			for si := 0; ; si++ {
				bs := cur.bodies()
				if bi >= len(bs) || si >= len(*bs[bi]) {
					break
				}
				n := cur.clone()
				nb := n.bodies()[bi]
				*nb = append((*nb)[:si], (*nb)[si+1:]...)
				if same(n) {
					cur, progress = n, true
					si--
				}
			}
		}
		// simplify storage
		for i := range cur.accts {
			for _, k := range sortedKeys(cur.accts[i].storage) {
				n := cur.clone()
				delete(n.accts[i].storage, k)
				if same(n) {
					cur, progress = n, true
				}
			}
		}
	}
	return cur
}

// ---- run ------------------------------------------------------------------------------------------------

func nontrivial(g *caseResult) bool {
	frames, failing := 0, false
	for _, t := range g.txs {
		frames += 1 + len(t.events)
		if t.class != "ok" {
			failing = true
		}
		for _, e := range t.events {
			if e.class != "ok" {
				failing = true
			}
		}
	}
	return frames >= 2 && failing
}

func setup() {
	quiet.Silence()
	params.InitNetworkId(params.NetworkIdForTestCase)
	p := params.Versions[params.YouCurrentVersion]
	vmParams = &p
}

func run(c *vh.Ctx) error {
	setup()
	res := c.Res
	res.Rule = "case = account set (contracts compiled from program bodies) + 1..3 transactions executed on one StateDB with Finalise(true) in between; non-trivial when the execution has >= 2 frames and >= 1 frame that fails (revert, out of gas, invalid, write protection, depth/balance/collision/code-store failure); distinct by canonical case text"
	var drv *vh.Driver
	if c.Driver != "" {
		var err error
		if drv, err = vh.StartDriver(c.Driver); err != nil {
			return err
		}
		defer drv.Close()
		s, err := drv.Ask(constLine())
		if err != nil {
			return err
		}
		if s != "ok" {
			rp := vh.WriteReplay(c.ReplayDir, "C16", "consts", c.Seed, []string{"gas constants of params/evm_params.go differ from the model's: " + s}, []string{constLine()})
			res.Fail("correspondence", "", "gas constants differ from the model: "+s, rp)
		}
	}
	report := func(name string, tc *testCase, v verdict) {
		same := func(n *testCase) bool {
			nv, _, _, err := evaluate(n, drv)
			return err == nil && nv.kind == v.kind && nv.matcher == v.matcher && oracleName(nv.what) == oracleName(v.what)
		}
		small := shrinkCase(tc, same)
		sv, _, _, _ := evaluate(small, drv)
		if sv.kind != v.kind {
			small, sv = tc, v
		}
		rp := vh.WriteReplay(c.ReplayDir, "C16", name, c.Seed, []string{sv.kind + ": " + sv.what}, small.lines())
		res.Fail(sv.kind, sv.matcher, sv.what, rp)
	}
	// ---- corpus ------------------------------------------------------------------------------------
	for _, f := range vh.CorpusFiles("C16") {
		body, comments, e := vh.ReadReplay(f)
		if e != nil {
			continue
		}
		still, what := replayWith(drv, body, comments)
		res.Dist("corpus")
		if still {
			res.Fail("corpus", corpusMatcher(what), "corpus witness fails: "+f+": "+what, f)
		}
	}
	// ---- generated cases ---------------------------------------------------------------------------
	n := c.N(15000, 200000)
	deepEvery := c.N(3000, 5000)
	if c.Search {
		n *= 3
	}
	reported := map[string]int{}
	for i := 0; i < n; i++ {
		var tc *testCase
		stream := "structured"
		switch {
		case i%40 == 7:
			tc, stream = ghostCase(c.R), "deleted-then-touched"
		case i%25 == 9:
			tc, stream = logCase(c.R), "first-log-in-failing-frame"
		case i%20 == 3:
			tc, stream = restoreCase(c.R), "write-back-to-pre-block-value"
		case i%deepEvery == 11:
			tc, stream = deepCase(c.R, i/deepEvery), "depth-limit"
		default:
			tc = genCase(c.R)
		}
		// aim the gas of one transaction at the point where it just runs out
		if c.R.Chance(45) && !tc.deep {
			if g0, fatal := runGo(tc, false); fatal == "" && len(g0.txs) > 0 {
				k := c.R.Intn(len(g0.txs))
				if k < len(tc.txs) && g0.txs[k].panicMsg == "" {
					used := tc.txs[k].gas - g0.txs[k].gasLeft
					cut := uint64(c.R.Intn(int(min(used, 30000)) + 1))
					if c.R.Chance(30) {
						cut = uint64(c.R.Intn(40))
					}
					tc.txs[k].gas = used - cut
					stream += "+gas-aimed"
				}
			}
		}
		v, g, traces, err := evaluate(tc, drv)
		if err != nil {
			return err
		}
		if v.kind == "invalid" {
			res.Dist("skipped-" + v.what)
			continue
		}
		res.TracesVsImpl += traces
		res.Count(strings.Join(tc.lines(), "\n"), nontrivial(g))
		res.Dist("stream-" + stream)
		tally(res, g)
		if i < 3 {
			res.Sample(map[string]interface{}{"case": tc.lines(), "go_outcomes": outcomes(g)})
		}
		if v.kind != "" {
			key := v.kind + "/" + v.matcher + "/" + oracleName(v.what)
			reported[key]++
			if reported[key] <= 2 {
				report(fmt.Sprintf("%s-%d", strings.ReplaceAll(oracleName(v.what), "_", "-"), i), tc, v)
			}
		}
	}
	for k, v := range reported {
		res.DistN("failing-cases "+k, v)
	}
	for k, v := range modelKinds {
		res.DistN(k, v)
	}
	probes(c, drv)
	res.Partial = append(res.Partial,
		"gas of pure stack/memory opcodes is pre-computed by the harness' assembler (opcode arithmetic and the static gas table are property C15)",
		"snapshot/revert is modelled as save/restore of the world (its journal implementation is property C09)",
		"precompiled contracts, CALLs back into an executing contract (recursion) and calls into contracts created earlier in the same case are not generated")
	return nil
}

func oracleName(what string) string {
	for _, n := range []string{"failed_frame_no_trace", "static_changes_nothing", "balance_conserved", "gas_monotone", "panicked"} {
		if strings.Contains(what, n) {
			return n
		}
	}
	return "model"
}

func corpusMatcher(what string) string {
	if strings.Contains(what, "[matcher ") {
		s := what[strings.Index(what, "[matcher ")+9:]
		return s[:strings.Index(s, "]")]
	}
	return ""
}

func outcomes(g *caseResult) []string {
	var o []string
	for _, t := range g.txs {
		s := fmt.Sprintf("%s gasLeft=%d frames=%d", t.class, t.gasLeft, 1+len(t.events))
		if t.panicMsg != "" {
			s = "panic: " + t.panicMsg
		}
		o = append(o, s)
	}
	return o
}

func tally(res *vh.Result, g *caseResult) {
	maxDepth := 0
	for _, t := range g.txs {
		res.Dist("tx-" + t.class)
		for _, e := range t.events {
			res.Dist(fmt.Sprintf("frame-%s-%s", []string{"call", "callcode", "delegatecall", "staticcall", "create", "create2"}[e.tag], e.class))
			if e.depth+1 > maxDepth {
				maxDepth = e.depth + 1
			}
		}
		if t.suicides > 0 {
			res.Dist("tx-with-selfdestruct")
		}
	}
	res.Dist(fmt.Sprintf("txs-%d", len(g.txs)))
	res.Dist(fmt.Sprintf("max-depth-%d", maxDepth))
}

// ---- replay ----------------------------------------------------------------------------------------------

func replayWith(drv *vh.Driver, body, comments []string) (bool, string) {
	if len(body) == 1 && strings.HasPrefix(body[0], "CONST") {
		if drv == nil {
			return false, "no driver"
		}
		s, _ := drv.Ask(constLine())
		return s != "ok", s
	}
	tc, err := parseCase(body)
	if err != nil {
		return false, "unreadable replay: " + err.Error()
	}
	v, g, _, err := evaluate(tc, drv)
	if err != nil {
		return true, "driver error: " + err.Error()
	}
	if v.kind == "" || v.kind == "invalid" {
		return false, "no longer fails (" + strings.Join(outcomes(g), "; ") + ") " + v.what
	}
	m := ""
	if v.matcher != "" {
		m = " [matcher " + v.matcher + "]"
	}
	return true, v.kind + ": " + v.what + m
}

func replay(c *vh.Ctx, body, comments []string) (bool, string) {
	setup()
	var drv *vh.Driver
	if c.Driver != "" {
		drv, _ = vh.StartDriver(c.Driver)
		if drv != nil {
			defer drv.Close()
		}
	}
	return replayWith(drv, body, comments)
}

// ---- probes -----------------------------------------------------------------------------------------------

func probes(c *vh.Ctx, drv *vh.Driver) {
	// F-C16a: balance of a self-destructed account that received value after its self-destruct comes back in
	// the next transaction of the block.
	x, y, z := addrN(0xc101), addrN(0xc100), addrN(0xc102)
	tc := &testCase{accts: []*account{
		{addr: originA, bal: 1000000000, storage: map[uint64]uint64{}},
		{addr: plainRich, nonce: 1, bal: 777, storage: map[uint64]uint64{}},
		{addr: y, nonce: 1, bal: 100, storage: map[uint64]uint64{}, body: []step{
			{op: 'C', kind: "c", addr: x, gas: 100000}, {op: 'C', kind: "c", addr: z, gas: 100000}, {op: 'S'}}},
		{addr: x, nonce: 1, bal: 3, storage: map[uint64]uint64{}, body: []step{{op: 'D', addr: plainRich}}},
		{addr: z, nonce: 1, bal: 7, storage: map[uint64]uint64{}, body: []step{{op: 'D', addr: x}}}},
		txs: []tx{{origin: originA, to: y, gas: 300000}, {origin: originA, to: x, gas: 100000, value: 5}}}
	g, fatal := runGo(tc, false)
	p := vh.Probe{ID: "F-C16a"}
	if fatal == "" && len(g.txs) == 2 && g.txs[1].panicMsg == "" {
		bal := ""
		for _, l := range g.txs[1].dump {
			if strings.HasPrefix(l, ah(x)+":") {
				bal = strings.Split(l, ":")[3]
			}
		}
		p.Reproduced = bal == "12"
		p.What = fmt.Sprintf("tx1: X (3 wei) self-destructs to B, then Z self-destructs its 7 wei to X; Finalise(true); tx2 sends 5 wei to X: X holds %s wei (5 expected, 12 = the 7 destroyed wei are back); sum of balances %s -> %s", bal, g.txs[1].total0, g.txs[1].total1)
	} else {
		p.What = "probe could not run: " + fatal
	}
	c.Res.Probes = append(c.Res.Probes, p)
}

var _ = sort.Strings
var _ = big.NewInt
