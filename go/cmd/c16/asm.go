package main

// Program trees, their text form (replay files), the tiny assembler that turns them into EVM bytecode,
// and the serialiser that hands the same tree (callee bodies inlined, static gas of the pure opcodes
// pre-computed per step) to the Lean model.

import (
	"fmt"
	"math/big"
	"strconv"
	"strings"

	"github.com/youchainhq/go-youchain/common"
	"github.com/youchainhq/go-youchain/crypto"
)

type step struct {
	op      byte // S R V I D | G W L C N M
	n       uint64
	k, v    uint64
	topics  []uint64
	kind    string // c cc d s
	addr    common.Address
	value   uint64
	gas     uint64
	retSize uint64
	data    []byte
	zeros   int // R/V: return this many zero bytes of fresh memory instead of data
	salt    uint64
	init    []step
}

func isEnding(op byte) bool { return strings.IndexByte("SRVID", op) >= 0 }

type account struct {
	addr    common.Address
	nonce   uint64
	bal     uint64
	storage map[uint64]uint64
	body    []step // nil = no code
}

type tx struct {
	create bool
	origin common.Address
	to     common.Address
	value  uint64
	gas    uint64
	init   []step
}

type testCase struct {
	accts []*account
	txs   []tx
	extra []common.Address // further addresses to observe (non-existent targets, beneficiaries)
	deep  bool             // self-recursive case aimed at the call-depth limit: unrolled 1030 levels for the model
}

func (c *testCase) unrollLimit() int {
	if c.deep {
		return 1030
	}
	return 10
}

func (c *testCase) acct(a common.Address) *account {
	for _, x := range c.accts {
		if x.addr == a {
			return x
		}
	}
	return nil
}

// ---- text form -------------------------------------------------------------------------------------

func ah(a common.Address) string { return fmt.Sprintf("%040x", a[:]) }

func dataTok(s step) string {
	if s.zeros > 0 {
		return fmt.Sprintf("z%d", s.zeros)
	}
	if len(s.data) == 0 {
		return "-"
	}
	return fmt.Sprintf("%x", s.data)
}

func bodyText(b []step) string {
	var t []string
	for _, s := range b {
		switch s.op {
		case 'S':
			t = append(t, "S")
		case 'I':
			t = append(t, fmt.Sprintf("I %d", s.n))
		case 'R', 'V':
			t = append(t, string(s.op), dataTok(s))
		case 'D':
			t = append(t, "D", ah(s.addr))
		case 'G':
			t = append(t, fmt.Sprintf("G %d", s.n))
		case 'W':
			t = append(t, fmt.Sprintf("W %d %d", s.k, s.v))
		case 'L':
			x := []string{"L", strconv.Itoa(len(s.topics))}
			for _, tp := range s.topics {
				x = append(x, strconv.FormatUint(tp, 10))
			}
			t = append(t, strings.Join(x, " "))
		case 'C':
			t = append(t, fmt.Sprintf("C %s %s %d %d %d", s.kind, ah(s.addr), s.value, s.gas, s.retSize))
		case 'N':
			t = append(t, fmt.Sprintf("N %d ( %s )", s.value, bodyText(s.init)))
		case 'M':
			t = append(t, fmt.Sprintf("M %d %d ( %s )", s.value, s.salt, bodyText(s.init)))
		}
	}
	return strings.Join(t, " ")
}

func (c *testCase) lines() []string {
	var out []string
	if c.deep {
		out = append(out, "DEEP")
	}
	for _, a := range c.accts {
		l := fmt.Sprintf("ACCT %s %d %d", ah(a.addr), a.nonce, a.bal)
		for _, k := range sortedKeys(a.storage) {
			l += fmt.Sprintf(" %d=%d", k, a.storage[k])
		}
		out = append(out, l)
		if a.body != nil {
			out = append(out, "CODE "+ah(a.addr)+" "+bodyText(a.body))
		}
	}
	for _, a := range c.extra {
		out = append(out, "WATCH "+ah(a))
	}
	for _, t := range c.txs {
		if t.create {
			out = append(out, fmt.Sprintf("TX create %s %d %d %s", ah(t.origin), t.value, t.gas, bodyText(t.init)))
		} else {
			out = append(out, fmt.Sprintf("TX call %s %s %d %d", ah(t.origin), ah(t.to), t.value, t.gas))
		}
	}
	return out
}

func sortedKeys(m map[uint64]uint64) []uint64 {
	var ks []uint64
	for k := range m {
		ks = append(ks, k)
	}
	for i := 1; i < len(ks); i++ {
		for j := i; j > 0 && ks[j-1] > ks[j]; j-- {
			ks[j-1], ks[j] = ks[j], ks[j-1]
		}
	}
	return ks
}

type tokens struct {
	t []string
	i int
}

func (p *tokens) next() (string, error) {
	if p.i >= len(p.t) {
		return "", fmt.Errorf("unexpected end of program")
	}
	p.i++
	return p.t[p.i-1], nil
}
func (p *tokens) u64() (uint64, error) {
	s, err := p.next()
	if err != nil {
		return 0, err
	}
	return strconv.ParseUint(s, 10, 64)
}
func (p *tokens) address() (common.Address, error) {
	s, err := p.next()
	if err != nil {
		return common.Address{}, err
	}
	if len(s) != 40 {
		return common.Address{}, fmt.Errorf("bad address %q", s)
	}
	return common.HexToAddress(s), nil
}
func (p *tokens) dataInto(s *step) error {
	d, err := p.next()
	if err != nil {
		return err
	}
	switch {
	case d == "-":
	case strings.HasPrefix(d, "z"):
		n, e := strconv.Atoi(d[1:])
		if e != nil || n < 0 || n > 1<<20 {
			return fmt.Errorf("bad zero run %q", d)
		}
		s.zeros = n
	default:
		s.data = common.FromHex(d)
	}
	return nil
}

// parseBody reads steps until the closing ")" (nested) or the end of the tokens (top level).
func parseBody(p *tokens, nested bool) ([]step, error) {
	var b []step
	for {
		if p.i >= len(p.t) {
			if nested {
				return nil, fmt.Errorf("missing )")
			}
			break
		}
		if p.t[p.i] == ")" {
			if !nested {
				return nil, fmt.Errorf("stray )")
			}
			p.i++
			break
		}
		tok, _ := p.next()
		if len(tok) != 1 {
			return nil, fmt.Errorf("bad step %q", tok)
		}
		s := step{op: tok[0]}
		var err error
		switch s.op {
		case 'S':
		case 'I', 'G':
			s.n, err = p.u64()
		case 'R', 'V':
			err = p.dataInto(&s)
		case 'D':
			s.addr, err = p.address()
		case 'W':
			if s.k, err = p.u64(); err == nil {
				s.v, err = p.u64()
			}
		case 'L':
			var n uint64
			if n, err = p.u64(); err == nil {
				if n > 4 {
					return nil, fmt.Errorf("LOG%d", n)
				}
				for i := uint64(0); i < n && err == nil; i++ {
					var t uint64
					t, err = p.u64()
					s.topics = append(s.topics, t)
				}
			}
		case 'C':
			if s.kind, err = p.next(); err == nil {
				if s.kind != "c" && s.kind != "cc" && s.kind != "d" && s.kind != "s" {
					return nil, fmt.Errorf("bad call kind %q", s.kind)
				}
				if s.addr, err = p.address(); err == nil {
					if s.value, err = p.u64(); err == nil {
						if s.gas, err = p.u64(); err == nil {
							s.retSize, err = p.u64()
						}
					}
				}
			}
		case 'N', 'M':
			if s.value, err = p.u64(); err == nil {
				if s.op == 'M' {
					s.salt, err = p.u64()
				}
				if err == nil {
					var open string
					if open, err = p.next(); err == nil {
						if open != "(" {
							return nil, fmt.Errorf("expected (")
						}
						s.init, err = parseBody(p, true)
					}
				}
			}
		default:
			return nil, fmt.Errorf("bad step %q", tok)
		}
		if err != nil {
			return nil, err
		}
		b = append(b, s)
	}
	return b, nil
}

func parseCase(lines []string) (*testCase, error) {
	c := &testCase{}
	for _, l := range lines {
		f := strings.Fields(l)
		if len(f) == 0 {
			continue
		}
		p := &tokens{t: f[1:]}
		switch f[0] {
		case "DEEP":
			c.deep = true
		case "ACCT":
			a := &account{storage: map[uint64]uint64{}}
			var err error
			if a.addr, err = p.address(); err != nil {
				return nil, err
			}
			if a.nonce, err = p.u64(); err != nil {
				return nil, err
			}
			if a.bal, err = p.u64(); err != nil {
				return nil, err
			}
			for p.i < len(p.t) {
				kv := strings.Split(p.t[p.i], "=")
				p.i++
				if len(kv) != 2 {
					return nil, fmt.Errorf("bad slot %q", l)
				}
				k, e1 := strconv.ParseUint(kv[0], 10, 64)
				v, e2 := strconv.ParseUint(kv[1], 10, 64)
				if e1 != nil || e2 != nil {
					return nil, fmt.Errorf("bad slot %q", l)
				}
				a.storage[k] = v
			}
			c.accts = append(c.accts, a)
		case "CODE":
			ad, err := p.address()
			if err != nil {
				return nil, err
			}
			a := c.acct(ad)
			if a == nil {
				return nil, fmt.Errorf("CODE for unknown account")
			}
			if a.body, err = parseBody(p, false); err != nil {
				return nil, err
			}
		case "WATCH":
			ad, err := p.address()
			if err != nil {
				return nil, err
			}
			c.extra = append(c.extra, ad)
		case "TX":
			t := tx{}
			kind, err := p.next()
			if err != nil {
				return nil, err
			}
			t.create = kind == "create"
			if t.origin, err = p.address(); err != nil {
				return nil, err
			}
			if !t.create {
				if t.to, err = p.address(); err != nil {
					return nil, err
				}
			}
			if t.value, err = p.u64(); err != nil {
				return nil, err
			}
			if t.gas, err = p.u64(); err != nil {
				return nil, err
			}
			if t.create {
				if t.init, err = parseBody(p, false); err != nil {
					return nil, err
				}
			}
			c.txs = append(c.txs, t)
		default:
			return nil, fmt.Errorf("unknown line %q", f[0])
		}
	}
	return c, nil
}

// ---- assembler -------------------------------------------------------------------------------------

const (
	opSTOP, opPOP, opCODECOPY, opSSTORE, opJUMP, opJUMPDEST = 0x00, 0x50, 0x39, 0x55, 0x56, 0x5b
	opPUSH1, opLOG0, opCREATE, opCALL, opCALLCODE, opRETURN = 0x60, 0xa0, 0xf0, 0xf1, 0xf2, 0xf3
	opDELEGATECALL, opCREATE2, opSTATICCALL, opREVERT       = 0xf4, 0xf5, 0xfa, 0xfd
	opINVALID, opSELFDESTRUCT                               = 0xfe, 0xff
)

func memCost(words uint64) uint64 { return 3*words + words*words/512 }

type asm struct {
	code    []byte
	datas   [][]byte // data section blobs
	fix     []int    // positions of PUSH2 operands to patch, parallel to datas
	memW    uint64   // words of memory this frame has expanded to so far
	pending uint64   // static gas of pure opcodes already emitted and not yet charged to a step
	lean    []string
	c       *testCase
	depth   int
	bad     *bool
}

func (a *asm) push(v uint64) {
	b := new(big.Int).SetUint64(v).Bytes()
	if len(b) == 0 {
		b = []byte{0}
	}
	a.code = append(a.code, byte(opPUSH1+len(b)-1))
	a.code = append(a.code, b...)
	a.pending += 3
}
func (a *asm) pushBytes(b []byte) {
	a.code = append(a.code, byte(opPUSH1+len(b)-1))
	a.code = append(a.code, b...)
	a.pending += 3
}
func (a *asm) pushDataRef(blob []byte) {
	a.code = append(a.code, opPUSH1+1, 0, 0)
	a.fix = append(a.fix, len(a.code)-2)
	a.datas = append(a.datas, blob)
	a.pending += 3
}
func (a *asm) expand(bytes uint64) {
	w := (bytes + 31) / 32
	if w > a.memW {
		a.pending += memCost(w) - memCost(a.memW)
		a.memW = w
	}
}

// copyToMem emits CODECOPY(0, <blob>, len) and charges its gas to pending.
func (a *asm) copyToMem(blob []byte) {
	n := uint64(len(blob))
	a.push(n)
	a.pushDataRef(blob)
	a.push(0)
	a.code = append(a.code, opCODECOPY)
	a.pending += 3 + 3*((n+31)/32)
	if n > 0 {
		a.expand(n)
	}
}
func (a *asm) take() uint64 { p := a.pending; a.pending = 0; return p }

// assemble compiles one frame body; returns bytecode and the Lean token form (callee bodies inlined).
func assemble(c *testCase, body []step, depth int, bad *bool) ([]byte, []string) {
	a := &asm{c: c, depth: depth, bad: bad}
	if len(body) == 0 || !isEnding(body[len(body)-1].op) {
		body = append(append([]step{}, body...), step{op: 'S'})
	}
	for _, s := range body {
		switch s.op {
		case 'G':
			for i := uint64(0); i < s.n; i++ {
				a.code = append(a.code, opJUMPDEST)
			}
			a.lean = append(a.lean, "G", u(s.n+a.take()))
		case 'W':
			a.push(s.v)
			a.push(s.k)
			a.code = append(a.code, opSSTORE)
			a.lean = append(a.lean, "W", u(a.take()), u(s.k), u(s.v))
		case 'L':
			for i := len(s.topics) - 1; i >= 0; i-- {
				a.push(s.topics[i])
			}
			a.push(0)
			a.push(0)
			a.code = append(a.code, byte(opLOG0+len(s.topics)))
			a.lean = append(a.lean, "L", u(a.take()), u(uint64(len(s.topics))))
			for _, t := range s.topics {
				a.lean = append(a.lean, u(t))
			}
		case 'C':
			a.push(s.retSize)
			a.push(0)
			a.push(0)
			a.push(0)
			var opc byte
			switch s.kind {
			case "c":
				opc = opCALL
				a.push(s.value)
			case "cc":
				opc = opCALLCODE
				a.push(s.value)
			case "d":
				opc = opDELEGATECALL
			default:
				opc = opSTATICCALL
			}
			a.pushBytes(s.addr[:])
			a.push(s.gas)
			a.code = append(a.code, opc)
			pre := a.take()
			if s.retSize > 0 {
				a.expand(s.retSize)
			}
			mem := a.take()
			a.code = append(a.code, opPOP)
			a.pending += 2
			a.lean = append(a.lean, "C", s.kind, u(pre), u(mem), ah(s.addr), u(s.value), u(s.gas))
			a.lean = append(a.lean, calleeLean(c, s.addr, depth+1, bad)...)
		case 'N', 'M':
			initCode, initLean := assemble(c, s.init, depth+1, bad)
			a.copyToMem(initCode)
			n := uint64(len(initCode))
			if s.op == 'M' {
				a.push(s.salt)
			}
			a.push(n)
			a.push(0)
			a.push(s.value)
			if s.op == 'N' {
				a.code = append(a.code, opCREATE)
				a.lean = append(a.lean, "N", u(a.take()), u(s.value))
			} else {
				a.code = append(a.code, opCREATE2)
				h := crypto.Keccak256(initCode)
				a.lean = append(a.lean, "M", u(a.take()), u(6*((n+31)/32)), u(s.value), fmt.Sprintf("%x", s.salt), fmt.Sprintf("%x", h))
			}
			a.code = append(a.code, opPOP)
			a.pending += 2
			a.lean = append(a.lean, initLean...)
		case 'S':
			a.code = append(a.code, opSTOP)
			a.lean = append(a.lean, "S", u(a.take()))
		case 'I':
			// every variant is an interpreter error other than out-of-gas / write protection / revert
			switch s.n % 4 {
			case 0:
				a.code = append(a.code, opINVALID)
			case 1:
				a.code = append(a.code, 0x0c) // undefined opcode
			case 2:
				a.code = append(a.code, opPOP) // stack underflow (the stack is empty between steps)
			case 3:
				// jump into this PUSH2's own operand: never a valid destination
				t := len(a.code) + 1
				a.code = append(a.code, opPUSH1+1, byte(t>>8), byte(t), opJUMP)
				a.pending += 3 + 8
			}
			a.lean = append(a.lean, "I", u(a.take()))
		case 'R', 'V':
			opc := byte(opRETURN)
			if s.op == 'V' {
				opc = opREVERT
			}
			var tok string
			if s.zeros > 0 {
				off := a.memW * 32 // beyond everything this frame has touched: guaranteed zero bytes
				a.push(uint64(s.zeros))
				a.push(off)
				a.expand(off + uint64(s.zeros))
				tok = fmt.Sprintf("z%d", s.zeros)
			} else {
				a.copyToMem(s.data)
				a.push(uint64(len(s.data)))
				a.push(0)
				tok = dataTok(s)
			}
			a.code = append(a.code, opc)
			a.lean = append(a.lean, string(s.op), u(a.take()), tok)
		case 'D':
			a.pushBytes(s.addr[:])
			a.code = append(a.code, opSELFDESTRUCT)
			a.lean = append(a.lean, "D", u(a.take()), ah(s.addr))
		}
	}
	// data section
	for i, blob := range a.datas {
		off := len(a.code)
		if off > 0xffff {
			*bad = true
		}
		a.code[a.fix[i]] = byte(off >> 8)
		a.code[a.fix[i]+1] = byte(off)
		a.code = append(a.code, blob...)
	}
	return a.code, a.lean
}

func u(x uint64) string { return strconv.FormatUint(x, 10) }

// calleeLean is the Lean form of the code at addr ("S 0" when there is none: the model does not enter it).
func calleeLean(c *testCase, addr common.Address, depth int, bad *bool) []string {
	t := c.acct(addr)
	if t == nil || t.body == nil {
		return []string{"S", "0"}
	}
	if depth > c.unrollLimit() {
		*bad = !c.deep // cyclic or too deep: cannot be unrolled (a deep case never gets past the depth limit)
		return []string{"S", "0"}
	}
	_, l := assemble(c, t.body, depth, bad)
	return l
}
