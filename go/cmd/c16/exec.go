package main

// Runs a test case on the real EVM (vm.NewEVM over a real StateDB, core.CanTransfer/core.Transfer),
// observing every frame through the vm.Tracer interface, and evaluates the implementation-level oracle:
//   - a CALL-family/CREATE operation that reports failure leaves the observable state exactly as it was
//     before the operation (a failed CREATE may have bumped the creator's nonce),
//   - a STATICCALL changes nothing whatever its result (accounts that are empty count as non-existent),
//   - the gas handed back by a frame never exceeds the gas it was given (stipend included),
//   - execution never increases the sum of all balances, and leaves it unchanged when no SELFDESTRUCT ran.

import (
	"fmt"
	"math/big"
	"sort"
	"strings"
	"time"

	"github.com/youchainhq/go-youchain/common"
	"github.com/youchainhq/go-youchain/core"
	"github.com/youchainhq/go-youchain/core/state"
	"github.com/youchainhq/go-youchain/core/vm"
	"github.com/youchainhq/go-youchain/params"
	"github.com/youchainhq/go-youchain/youdb"
)

type event struct {
	depth    int
	tag      int
	class    string // ok | revert | err-oog | err-invalid | err-wprot | err-evm (failure decided in evm.go, not by the interpreter)
	returned uint64
	after    uint64         // the caller's gas after the operation
	addr     common.Address // callee / created (zero when a create failed)
}

type pendingOp struct {
	op        vm.OpCode
	gasBefore uint64
	cost      uint64
	hasValue  bool
	supplied  uint64
	entered   bool
	before    []string
	self      common.Address
	target    common.Address
	balBefore *big.Int
}

type violation struct {
	oracle string
	what   string
}

type frameTracer struct {
	st        *state.StateDB
	universe  func() []common.Address
	slots     []uint64
	pending   map[int]*pendingOp
	lastErr   map[int]error
	events    []event
	created   []common.Address
	viol      []violation
	suicides  int
	checkObs  bool
}

func errClass(err error) string {
	if err == nil {
		return "ok"
	}
	s := err.Error()
	switch {
	case err == vm.ErrOutOfGas || s == "out of gas":
		return "err-oog"
	case s == "evm: execution reverted":
		return "revert"
	case s == "evm: write protection":
		return "err-wprot"
	case strings.HasPrefix(s, "invalid opcode"), strings.HasPrefix(s, "stack underflow"), strings.HasPrefix(s, "invalid jump destination"):
		return "err-invalid"
	case err == vm.ErrDepth, err == vm.ErrInsufficientBalance, err == vm.ErrContractAddressCollision, err == vm.ErrCodeStoreOutOfGas,
		s == "evm: max code size exceeded":
		return "err-evm"
	}
	return "err-other(" + s + ")"
}

// observe renders the observable state of every watched account. With normalise, non-existent and empty
// accounts are the same thing (what Finalise(true) makes of them).
func observe(st *state.StateDB, addrs []common.Address, slots []uint64, normalise bool) []string {
	out := make([]string, 0, len(addrs)+1)
	for _, a := range addrs {
		if !st.Exist(a) || (normalise && st.Empty(a)) {
			out = append(out, ah(a)+":0:0:0:-:0:")
			continue
		}
		code := "-"
		if c := st.GetCode(a); len(c) > 0 {
			code = fmt.Sprintf("%x", c)
		}
		var sl []string
		for _, k := range slots {
			kh := common.BigToHash(new(big.Int).SetUint64(k))
			v, o := st.GetState(a, kh).Big(), st.GetCommittedState(a, kh).Big()
			if v.Sign() != 0 || o.Sign() != 0 {
				sl = append(sl, fmt.Sprintf("%d=%s/%s", k, v, o))
			}
		}
		sui := 0
		if st.HasSuicided(a) {
			sui = 1
		}
		out = append(out, fmt.Sprintf("%s:1:%d:%s:%s:%d:%s", ah(a), st.GetNonce(a), st.GetBalance(a), code, sui, strings.Join(sl, ",")))
	}
	return out
}

// logsText renders the current transaction's logs with their block-wide Index, followed by the state's log
// counter (what the next log's Index will be): "addr/topics@index,...#logSize". A log whose TxIndex/TxHash is not the
// current transaction's is marked.
func logsText(st *state.StateDB, thash common.Hash) string {
	var ls []string
	for _, l := range st.GetLogs(thash) {
		x := []string{ah(l.Address)}
		for _, t := range l.Topics {
			x = append(x, t.Big().String())
		}
		e := fmt.Sprintf("%s@%d", strings.Join(x, "/"), l.Index)
		if l.TxIndex != uint(st.TxIndex()) || l.TxHash != thash {
			e += fmt.Sprintf("!tx%d", l.TxIndex)
		}
		ls = append(ls, e)
	}
	body := "-"
	if len(ls) > 0 {
		body = strings.Join(ls, ",")
	}
	return fmt.Sprintf("%s#%d", body, st.VerifC09LogSize())
}

func totalBalance(st *state.StateDB, addrs []common.Address) *big.Int {
	t := new(big.Int)
	for _, a := range addrs {
		t.Add(t, st.GetBalance(a))
	}
	return t
}

func (t *frameTracer) snapshotObs(normalise bool) []string {
	o := observe(t.st, t.universe(), t.slots, normalise)
	return append(o, "logs="+logsText(t.st, txHashCur), fmt.Sprintf("refund=%d", t.st.GetRefund()))
}

var txHashCur common.Hash

func (t *frameTracer) CaptureStart(from common.Address, to common.Address, call bool, input []byte, gas uint64, value *big.Int) error {
	return nil
}
func (t *frameTracer) CaptureEnd(output []byte, gasUsed uint64, d time.Duration, err error) error {
	return nil
}
func (t *frameTracer) CaptureFault(env *vm.EVM, pc uint64, op vm.OpCode, gas, cost uint64, memory *vm.Memory, stack *vm.Stack, contract *vm.Contract, depth int, err error) error {
	t.lastErr[depth] = err
	return nil
}

func isCallOp(op vm.OpCode) bool {
	switch op {
	case vm.CALL, vm.CALLCODE, vm.DELEGATECALL, vm.STATICCALL, vm.CREATE, vm.CREATE2:
		return true
	}
	return false
}

func opTag(op vm.OpCode) int {
	switch op {
	case vm.CALL:
		return 0
	case vm.CALLCODE:
		return 1
	case vm.DELEGATECALL:
		return 2
	case vm.STATICCALL:
		return 3
	case vm.CREATE:
		return 4
	}
	return 5
}

// diffObs compares an observation with a later one. The later one may list more accounts (created in
// between): after a failed frame those must not exist.
func diffObs(a, b []string) string {
	var d []string
	na := len(a) - 2 // accounts, then logs= and refund=
	if na < 0 || len(b) < len(a) {
		return "malformed observation"
	}
	for i := 0; i < na; i++ {
		if a[i] != b[i] {
			d = append(d, fmt.Sprintf("before %s after %s", a[i], b[i]))
		}
	}
	for i := na; i < len(b)-2; i++ {
		if !strings.HasSuffix(b[i], ":0:0:0:-:0:") {
			d = append(d, fmt.Sprintf("before %s:0:0:0:-:0: after %s", strings.SplitN(b[i], ":", 2)[0], b[i]))
		}
	}
	for k := 1; k <= 2; k++ {
		if a[len(a)-k] != b[len(b)-k] {
			d = append(d, fmt.Sprintf("before %s after %s", a[len(a)-k], b[len(b)-k]))
		}
	}
	return strings.Join(d, "; ")
}

func (t *frameTracer) CaptureState(env *vm.EVM, pc uint64, op vm.OpCode, gas, cost uint64, memory *vm.Memory, stack *vm.Stack, contract *vm.Contract, depth int, err error) error {
	// the callee of a pending operation one level up has just started: its first gas reading is what it was given
	if p := t.pending[depth-1]; p != nil && !p.entered {
		p.entered = true
		p.supplied = gas
	}
	// a pending operation of this frame has returned
	if p := t.pending[depth]; p != nil {
		delete(t.pending, depth)
		flag := stack.Back(0)
		isCreate := p.op == vm.CREATE || p.op == vm.CREATE2
		// CALL family: the op's cost includes the gas forwarded, what comes back is the difference.
		// CREATE family: the forwarded gas is taken inside the op; only the creator's gas afterwards is visible.
		returned := gas - (p.gasBefore - p.cost)
		if isCreate {
			returned = 0
		}
		ev := event{depth: depth, tag: opTag(p.op), returned: returned, after: gas, addr: p.target}
		cerr := t.lastErr[depth+1]
		delete(t.lastErr, depth+1)
		failed := flag.Sign() == 0
		switch {
		case !failed:
			ev.class = "ok"
			if p.op == vm.CREATE || p.op == vm.CREATE2 {
				ev.addr = common.BigToAddress(flag)
				t.created = append(t.created, ev.addr)
			}
		case cerr != nil:
			ev.class = errClass(cerr)
		default:
			ev.class = "err-evm"
		}
		t.events = append(t.events, ev)
		// ---- oracle: gas handed back never exceeds gas given --------------------------------------
		if isCreate {
			// the creator can never hold more than what it had after paying the operation's own cost;
			// when the init code ran, what came back (gas - kept) must not exceed what it was given
			if gas > p.gasBefore-p.cost || (p.entered && gas > p.gasBefore-p.cost) {
				t.viol = append(t.viol, violation{"gas_monotone", fmt.Sprintf("depth %d %v: creator holds %d after the operation, %d before it (cost %d)", depth, p.op, gas, p.gasBefore, p.cost)})
			}
		} else {
			bound := p.cost
			if p.hasValue {
				bound += params.CallStipend
			}
			if p.entered {
				bound = p.supplied
			}
			if returned > bound || gas > p.gasBefore {
				t.viol = append(t.viol, violation{"gas_monotone", fmt.Sprintf("depth %d %v: returned %d > supplied %d (gas before op %d, after %d)", depth, p.op, returned, bound, p.gasBefore, gas)})
			}
		}
		// ---- oracle: failed frame leaves no trace / static call changes nothing --------------------
		if t.checkObs && (failed || p.op == vm.STATICCALL) {
			norm := !failed
			after := t.snapshotObs(norm)
			before := p.before
			if norm {
				before = p.beforeNorm()
			}
			if d := diffObs(before, after); d != "" {
				okNonce := false
				if failed && (p.op == vm.CREATE || p.op == vm.CREATE2) {
					// a failed create may keep the creator's nonce bump and nothing else
					okNonce = onlyNonceBump(before, after, p.self)
				}
				if !okNonce {
					name := "failed_frame_no_trace"
					if !failed {
						name = "static_changes_nothing"
					}
					t.viol = append(t.viol, violation{name, fmt.Sprintf("depth %d %v class %s: %s", depth, p.op, ev.class, d)})
				}
			}
		}
	}
	if err != nil {
		t.lastErr[depth] = err
		return nil
	}
	if op == vm.SELFDESTRUCT {
		t.suicides++
	}
	if isCallOp(op) {
		p := &pendingOp{op: op, gasBefore: gas, cost: cost, self: contract.Address()}
		switch op {
		case vm.CALL, vm.CALLCODE:
			p.target = common.BigToAddress(stack.Back(1))
			p.hasValue = stack.Back(2).Sign() != 0
		case vm.DELEGATECALL, vm.STATICCALL:
			p.target = common.BigToAddress(stack.Back(1))
		}
		if t.checkObs {
			p.before = t.snapshotObs(false)
		}
		t.pending[depth] = p
	}
	return nil
}

// beforeNorm re-renders the saved observation with empty accounts treated as non-existent.
func (p *pendingOp) beforeNorm() []string {
	out := make([]string, len(p.before))
	for i, l := range p.before {
		f := strings.Split(l, ":")
		if len(f) == 7 && f[1] == "1" && f[2] == "0" && f[3] == "0" && f[4] == "-" {
			out[i] = f[0] + ":0:0:0:-:0:"
		} else {
			out[i] = l
		}
	}
	return out
}

func onlyNonceBump(before, after []string, self common.Address) bool {
	if diffObs(before, after) == "malformed observation" {
		return false
	}
	nb := len(before) - 2
	for i := nb; i < len(after)-2; i++ {
		if !strings.HasSuffix(after[i], ":0:0:0:-:0:") {
			return false
		}
	}
	if before[nb] != after[len(after)-2] || before[nb+1] != after[len(after)-1] {
		return false
	}
	for i := 0; i < nb; i++ {
		if before[i] == after[i] {
			continue
		}
		b, a := strings.Split(before[i], ":"), strings.Split(after[i], ":")
		if len(b) != 7 || len(a) != 7 || b[0] != ah(self) {
			return false
		}
		var nb, na uint64
		fmt.Sscan(b[2], &nb)
		fmt.Sscan(a[2], &na)
		b[2], a[2] = "", ""
		if na != nb+1 || strings.Join(b, ":") != strings.Join(a, ":") {
			return false
		}
	}
	return true
}

// ---- running a case --------------------------------------------------------------------------------

type txResult struct {
	class    string
	gasLeft  uint64
	ret      []byte
	created  common.Address
	events   []event
	dump     []string // before Finalise
	dumpFin  []string // after Finalise(true)
	panicMsg string
	viol     []violation
	uni      []common.Address // accounts observed by dump/dumpFin
	total0   *big.Int         // sum of balances before / after the transaction (before Finalise)
	total1   *big.Int
	suicides int
}

type caseResult struct {
	txs   []txResult
	addrs []common.Address // everything observed (static universe + created)
	slots []uint64
}

func (c *testCase) staticUniverse() []common.Address {
	seen := map[common.Address]bool{}
	var out []common.Address
	add := func(a common.Address) {
		if !seen[a] {
			seen[a] = true
			out = append(out, a)
		}
	}
	for _, a := range c.accts {
		add(a.addr)
	}
	for _, a := range c.extra {
		add(a)
	}
	var walk func(b []step)
	walk = func(b []step) {
		for _, s := range b {
			if s.op == 'C' || s.op == 'D' {
				add(s.addr)
			}
			walk(s.init)
		}
	}
	for _, a := range c.accts {
		walk(a.body)
	}
	for _, t := range c.txs {
		add(t.origin)
		if !t.create {
			add(t.to)
		}
		walk(t.init)
	}
	return out
}

func (c *testCase) slotUniverse() []uint64 {
	seen := map[uint64]bool{}
	var walk func(b []step)
	walk = func(b []step) {
		for _, s := range b {
			if s.op == 'W' {
				seen[s.k] = true
			}
			walk(s.init)
		}
	}
	for _, a := range c.accts {
		for k := range a.storage {
			seen[k] = true
		}
		walk(a.body)
	}
	for _, t := range c.txs {
		walk(t.init)
	}
	var out []uint64
	for k := range seen {
		out = append(out, k)
	}
	sort.Slice(out, func(i, j int) bool { return out[i] < out[j] })
	return out
}

var vmParams *params.YouParams

func u2b(x uint64) *big.Int { return new(big.Int).SetUint64(x) }

// runGo executes the case on the real code. compiled[addr] is the bytecode of each contract account.
func runGo(c *testCase, checkObs bool) (res *caseResult, fatal string) {
	bad := false
	defer func() {
		if p := recover(); p != nil { // outside every guarded phase: building the pre-state
			if res == nil {
				res = &caseResult{}
			}
			res.txs = append(res.txs, txResult{panicMsg: "building the pre-state: " + fmt.Sprint(p)})
			fatal = ""
		}
	}()
	db := state.NewDatabase(youdb.NewMemDatabase())
	st, err := state.New(common.Hash{}, common.Hash{}, common.Hash{}, db)
	if err != nil {
		return nil, "state.New: " + err.Error()
	}
	for _, a := range c.accts {
		st.SetNonce(a.addr, a.nonce)
		st.SetBalance(a.addr, u2b(a.bal))
		if a.body != nil {
			code, _ := assemble(c, a.body, 0, &bad)
			st.SetCode(a.addr, code)
		}
		for k, v := range a.storage {
			st.SetState(a.addr, common.BigToHash(u2b(k)), common.BigToHash(u2b(v)))
		}
	}
	root, valRoot, stakingRoot, err := st.Commit(false)
	if err != nil {
		return nil, "commit: " + err.Error()
	}
	if st, err = state.New(root, valRoot, stakingRoot, db); err != nil {
		return nil, "reopen: " + err.Error()
	}
	res = &caseResult{slots: c.slotUniverse()}
	universe := c.staticUniverse()
	tr := &frameTracer{st: st, slots: res.slots, checkObs: checkObs}
	tr.universe = func() []common.Address {
		out := append([]common.Address{}, universe...)
		seen := map[common.Address]bool{}
		for _, a := range out {
			seen[a] = true
		}
		for _, a := range tr.created { // may repeat: a reverted creation can be done again
			if !seen[a] {
				seen[a] = true
				out = append(out, a)
			}
		}
		return out
	}
	cfg := core.CombineVMConfig(vmParams, vm.LocalConfig{Debug: true, Tracer: tr})
	for i, t := range c.txs {
		thash := common.BigToHash(big.NewInt(int64(1000 + i)))
		txHashCur = thash
		st.Prepare(thash, common.Hash{}, i)
		tr.pending, tr.lastErr, tr.events, tr.viol, tr.suicides = map[int]*pendingOp{}, map[int]error{}, nil, nil, 0
		ctx := vm.Context{CanTransfer: core.CanTransfer, Transfer: core.Transfer,
			GetHash: func(uint64) common.Hash { return common.Hash{} }, Origin: t.origin, GasPrice: big.NewInt(1),
			Coinbase: common.Address{}, GasLimit: 10000000, BlockNumber: big.NewInt(100), Time: big.NewInt(1000)}
		evm := vm.NewEVM(ctx, st, cfg)
		var r txResult
		// every invocation of the real code is guarded: a panic anywhere (EVM, StateDB getters, Copy,
		// IntermediateRoot, Finalise) becomes an outcome of this transaction, never the death of the harness
		guard := func(phase string, f func()) (ok bool) {
			defer func() {
				if p := recover(); p != nil {
					r.panicMsg = phase + ": " + fmt.Sprint(p)
					ok = false
				}
			}()
			f()
			return true
		}
		abort := func() (*caseResult, string) {
			r.events = tr.events
			r.viol = append(r.viol, tr.viol...)
			res.txs = append(res.txs, r)
			res.addrs = universe
			return res, "" // the StateDB is unusable after a panic
		}
		var totalBefore, totalAfter *big.Int
		var rootBefore common.Hash
		var obsBefore []string
		if !guard("observing the state before the transaction (getters, Copy, IntermediateRoot)", func() {
			totalBefore = totalBalance(st, tr.universe())
			if checkObs {
				obsBefore = tr.snapshotObs(false)
				rootBefore, _, _ = st.Copy().IntermediateRoot(true)
			}
		}) {
			return abort()
		}
		if !guard("EVM execution", func() {
			var e error
			if t.create {
				code, _ := assemble(c, t.init, 0, &bad)
				r.ret, r.created, r.gasLeft, e = evm.Create(vm.AccountRef(t.origin), code, t.gas, u2b(t.value))
				if e == nil {
					tr.created = append(tr.created, r.created)
				}
			} else {
				r.ret, r.gasLeft, e = evm.Call(vm.AccountRef(t.origin), t.to, nil, t.gas, u2b(t.value))
			}
			r.class = errClass(e)
			if e != nil && r.class != "revert" {
				r.ret = nil
			}
		}) {
			return abort()
		}
		r.events = tr.events
		r.viol = tr.viol
		tr.viol = nil
		var uni []common.Address
		// ---- transaction-level oracle -------------------------------------------------------------
		if r.gasLeft > t.gas {
			r.viol = append(r.viol, violation{"gas_monotone", fmt.Sprintf("tx %d: gas left %d > gas supplied %d", i, r.gasLeft, t.gas)})
		}
		if !guard("observing the state after the transaction (getters)", func() {
			uni = tr.universe()
			totalAfter = totalBalance(st, uni)
			if totalAfter.Cmp(totalBefore) > 0 || (tr.suicides == 0 && totalAfter.Cmp(totalBefore) != 0) {
				r.viol = append(r.viol, violation{"balance_conserved", fmt.Sprintf("tx %d: sum of balances %s -> %s with %d SELFDESTRUCT executed", i, totalBefore, totalAfter, tr.suicides)})
			}
			if checkObs && r.class != "ok" {
				// the outermost frame failed: the observable state must be what it was (a failed creation may keep
				// the sender's nonce bump)
				after := tr.snapshotObs(false)
				if d := diffObs(obsBefore, after); d != "" && !(t.create && onlyNonceBump(obsBefore, after, t.origin)) {
					r.viol = append(r.viol, violation{"failed_frame_no_trace", fmt.Sprintf("tx %d failed (%s): %s", i, r.class, d)})
				}
			}
		}) {
			return abort()
		}
		if checkObs && r.class != "ok" && !t.create {
			if !guard("StateDB.Copy / IntermediateRoot after the failed transaction", func() {
				rootAfter, _, _ := st.Copy().IntermediateRoot(true)
				if rootAfter != rootBefore {
					r.viol = append(r.viol, violation{"failed_frame_no_trace", fmt.Sprintf("tx %d failed (%s) but the state root changed %x -> %x", i, r.class, rootBefore[:6], rootAfter[:6])})
				}
			}) {
				return abort()
			}
		}
		r.uni, r.total0, r.total1, r.suicides = uni, totalBefore, totalAfter, tr.suicides
		// dumps compared with the model show empty accounts as non-existent (see Driver/C16.lean dumpAcct);
		// the failing-frame oracle above compares existence exactly
		if !guard("dump / Finalise(true) / dump", func() {
			r.dump = append(observe(st, uni, res.slots, true), "logs="+logsText(st, thash), fmt.Sprintf("refund=%d", st.GetRefund()))
			st.Finalise(true)
			r.dumpFin = append(observe(st, uni, res.slots, true), fmt.Sprintf("logs=-#%d", st.VerifC09LogSize()), "refund=0")
		}) {
			return abort()
		}
		res.txs = append(res.txs, r)
	}
	// end of block: the root computation must survive whatever the transactions left behind
	if checkObs && len(res.txs) > 0 {
		last := &res.txs[len(res.txs)-1]
		func() {
			defer func() {
				if p := recover(); p != nil {
					last.panicMsg = "IntermediateRoot at the end of the block: " + fmt.Sprint(p)
				}
			}()
			st.Copy().IntermediateRoot(true)
			st.IntermediateRoot(true)
		}()
	}
	res.addrs = tr.universe()
	if bad {
		return res, "program cannot be assembled/unrolled (cyclic call graph or code too large)"
	}
	return res, ""
}
