package main

// Seeded structured generator of multi-contract, multi-transaction cases.

import (
	"github.com/youchainhq/go-youchain/common"
	"github.com/youchainhq/go-youchain/crypto"

	"verifharness/internal/vh"
)

func addrN(n uint64) common.Address { return common.BigToAddress(u2b(n)) }

var (
	originA   = addrN(0xa1a1)
	originB   = addrN(0xa2a2)
	plainRich = addrN(0xe1e1) // funded, no code
	ghostA    = addrN(0xe2e2) // does not exist
	ghostB    = addrN(0xe3e3) // does not exist
)

type genCtx struct {
	r     *vh.RNG
	pool  []common.Address // contract addresses, calls go "forward" only (acyclic)
	depth int
	pre   map[uint64]uint64 // pre-block (trie) storage of the contract whose body is being generated
}

// slotValue draws an SSTORE value from a tiny pool per slot: 0, the slot's pre-block value (writing a slot back
// to what the trie holds is the interesting case for dirty/pending/origin bookkeeping), and two others.
func (g *genCtx) slotValue(k uint64) uint64 {
	switch g.r.Weighted([]int{25, 35, 20, 20}) {
	case 0:
		return 0
	case 1:
		return g.pre[k] // 0 when the slot is not in the pre-state
	case 2:
		return 5
	default:
		return uint64(g.r.Range(1, 3))
	}
}

func (g *genCtx) gasSpec() uint64 {
	r := g.r
	switch r.Weighted([]int{10, 12, 18, 20, 20, 10, 10}) {
	case 0:
		return 0
	case 1:
		return uint64(r.Range(1, 1000))
	case 2:
		return uint64(r.Range(1000, 8000))
	case 3:
		return uint64(r.Range(8000, 30000))
	case 4:
		return uint64(r.Range(30000, 90000))
	case 5:
		return 10000000
	default:
		return uint64(r.Range(2200, 2400)) // around the SSTORE sentry / stipend
	}
}

func (g *genCtx) value() uint64 {
	r := g.r
	switch r.Weighted([]int{55, 30, 10, 5}) {
	case 0:
		return 0
	case 1:
		return uint64(r.Range(1, 9))
	case 2:
		return uint64(r.Range(10, 60))
	default:
		return uint64(r.Range(500, 5000)) // usually more than the contract owns
	}
}

func (g *genCtx) target(self int) common.Address {
	r := g.r
	if r.Chance(6) {
		return addrN(uint64(r.Range(1, 4))) // precompiles ecrecover, sha256, ripemd160 (the touch special case), identity
	}
	if self+1 < len(g.pool) && r.Chance(72) {
		return g.pool[r.Range(self+1, len(g.pool)-1)]
	}
	switch r.Intn(5) {
	case 0:
		return plainRich
	case 1:
		return ghostA
	case 2:
		return ghostB
	case 3:
		return originA
	default:
		if self >= 0 && self < len(g.pool) {
			return g.pool[self] // only reached for value transfers to a code-less target below
		}
		return ghostA
	}
}

func (g *genCtx) beneficiary(self int) common.Address {
	r := g.r
	switch r.Intn(6) {
	case 0:
		if self >= 0 && self < len(g.pool) {
			return g.pool[self] // to itself: burns
		}
		return ghostB
	case 1:
		return ghostA
	case 2:
		return ghostB
	case 3:
		return plainRich
	default:
		return g.pool[r.Intn(len(g.pool))]
	}
}

func (g *genCtx) data() ([]byte, int) {
	r := g.r
	switch r.Weighted([]int{30, 40, 20, 7, 3}) {
	case 0:
		return nil, 0
	case 1:
		return r.Bytes(r.Range(1, 40)), 0
	case 2:
		return nil, r.Range(1, 100)
	case 3:
		return r.Bytes(r.Range(41, 300)), 0
	default:
		return nil, 24570 + r.Intn(12) // around MaxCodeSize
	}
}

func (g *genCtx) ending(self int) step {
	r := g.r
	switch r.Weighted([]int{38, 14, 22, 12, 14}) {
	case 0:
		return step{op: 'S'}
	case 1:
		d, z := g.data()
		return step{op: 'R', data: d, zeros: z}
	case 2:
		d, z := g.data()
		if z > 1000 {
			z = 64
		}
		return step{op: 'V', data: d, zeros: z}
	case 3:
		return step{op: 'I', n: uint64(r.Intn(4))}
	default:
		return step{op: 'D', addr: g.beneficiary(self)}
	}
}

// body generates the body of pool contract `self` (self = -1: init code / unnamed frame).
func (g *genCtx) body(self int, nest int) []step {
	r := g.r
	var b []step
	n := r.Range(0, 5)
	if nest > 0 {
		n = r.Range(0, 3)
	}
	for i := 0; i < n; i++ {
		w := []int{10, 28, 12, 38, 7, 5}
		if nest >= 2 {
			w[4], w[5] = 0, 0
		}
		switch r.Weighted(w) {
		case 0:
			b = append(b, step{op: 'G', n: uint64(r.Range(1, 120))})
		case 1:
			k := uint64(r.Range(1, 3))
			b = append(b, step{op: 'W', k: k, v: g.slotValue(k)})
		case 2:
			s := step{op: 'L'}
			for k := r.Intn(5); k > 0; k-- {
				s.topics = append(s.topics, uint64(r.Range(1, 99)))
			}
			b = append(b, s)
		case 3:
			s := step{op: 'C', kind: []string{"c", "c", "c", "cc", "d", "s", "s"}[r.Intn(7)], gas: g.gasSpec()}
			s.addr = g.target(self)
			if s.kind == "c" || s.kind == "cc" {
				s.value = g.value()
			}
			if self >= 0 && self < len(g.pool) && s.addr == g.pool[self] {
				s.addr = ghostA // no recursion: the tree handed to the model must be finite
			}
			s.retSize = uint64([]int{0, 0, 32, 64}[r.Intn(4)])
			b = append(b, s)
		case 4:
			b = append(b, step{op: 'N', value: g.smallValue(), init: g.body(self, nest+1)})
		case 5:
			b = append(b, step{op: 'M', value: g.smallValue(), salt: uint64(r.Intn(3)), init: g.body(self, nest+1)})
		}
	}
	return append(b, g.ending(self))
}

func (g *genCtx) smallValue() uint64 {
	if g.r.Chance(70) {
		return 0
	}
	return uint64(g.r.Range(1, 12))
}

func genCase(r *vh.RNG) *testCase {
	c := &testCase{}
	c.accts = append(c.accts,
		&account{addr: originA, nonce: uint64(r.Intn(3)), bal: 1000000000, storage: map[uint64]uint64{}},
		&account{addr: originB, nonce: 0, bal: uint64(r.Range(1, 50)), storage: map[uint64]uint64{}},
		&account{addr: plainRich, nonce: 1, bal: 777, storage: map[uint64]uint64{}})
	c.extra = []common.Address{ghostA, ghostB}
	g := &genCtx{r: r}
	n := r.Range(2, 7)
	for i := 0; i < n; i++ {
		g.pool = append(g.pool, addrN(0xc100+uint64(i)))
	}
	for i := 0; i < n; i++ {
		a := &account{addr: g.pool[i], nonce: 1, bal: uint64(r.Weighted([]int{30, 50, 20})) * uint64(r.Range(1, 40)), storage: map[uint64]uint64{}}
		for k := uint64(1); k <= 3; k++ {
			if r.Chance(35) {
				a.storage[k] = uint64(r.Range(1, 3))
			}
		}
		g.pre = a.storage
		a.body = g.body(i, 0)
		// a write back to the pre-block value right before a call that shares this contract's storage
		// (DELEGATECALL / CALLCODE), and a different value after it: what a later transaction starts from
		if r.Chance(30) {
			for si, st := range a.body {
				if st.op == 'C' && (st.kind == "d" || st.kind == "cc") {
					k := uint64(r.Range(1, 3))
					nb := append([]step{}, a.body[:si]...)
					nb = append(nb, step{op: 'W', k: k, v: a.storage[k]})
					nb = append(nb, a.body[si])
					nb = append(nb, step{op: 'W', k: k, v: a.storage[k] + uint64(r.Range(1, 4))})
					a.body = append(nb, a.body[si+1:]...)
					break
				}
			}
		}
		c.accts = append(c.accts, a)
	}
	ntx := r.Weighted([]int{0, 12, 58, 30})
	for i := 0; i < ntx; i++ {
		t := tx{origin: originA, gas: uint64([]int{30000, 60000, 120000, 300000, 1000000}[r.Intn(5)])}
		if r.Chance(8) {
			t.origin = originB
		}
		if r.Chance(30) {
			t.value = uint64(r.Range(1, 40))
		}
		if r.Chance(12) {
			t.create = true
			t.init = g.body(-1, 1)
		} else {
			// prefer entry points low in the call graph so that trees are deep
			t.to = g.pool[r.Weighted([]int{50, 25, 10, 5, 4, 3, 3}[:n])]
			if i > 0 && !c.txs[i-1].create && r.Chance(35) {
				t.to = c.txs[i-1].to // the same entry point again: later transactions meet the earlier one's pending writes
			}
			if r.Chance(3) {
				t.to = ghostA
			}
			if r.Chance(2) {
				t.to = addrN(uint64(r.Range(1, 4)))
				t.gas = uint64([]int{10, 100, 700, 5000, 60000}[r.Intn(5)])
			}
		}
		c.txs = append(c.txs, t)
	}
	// sometimes the address a CREATE2 of some contract will produce already holds value (or is an account with a
	// nonce: collision): CreateAccount must carry the balance over / the creation must fail
	if r.Chance(15) {
		bad := false
	outer:
		for _, a := range c.accts {
			for _, s := range a.body {
				if s.op == 'M' {
					code, _ := assemble(c, s.init, 1, &bad)
					at := crypto.CreateAddress2(a.addr, common.BigToHash(u2b(s.salt)), code)
					pre := &account{addr: at, bal: uint64(r.Range(1, 30)), storage: map[uint64]uint64{}}
					if r.Chance(25) {
						pre.nonce = 1
					}
					c.accts = append(c.accts, pre)
					break outer
				}
			}
		}
	}
	return c
}

// ghostCase: the shape of known finding F-C16a. Transaction 1 makes contract X self-destruct and then sends
// value to it; transaction 2 of the same block touches X again.
func ghostCase(r *vh.RNG) *testCase {
	c := &testCase{}
	x, y, z := addrN(0xc101), addrN(0xc100), addrN(0xc102)
	c.accts = append(c.accts,
		&account{addr: originA, bal: 1000000000, storage: map[uint64]uint64{}},
		&account{addr: plainRich, nonce: 1, bal: 777, storage: map[uint64]uint64{}},
		&account{addr: y, nonce: 1, bal: 100, storage: map[uint64]uint64{}, body: []step{
			{op: 'C', kind: "c", addr: x, gas: 100000},
			{op: 'C', kind: []string{"c", "s"}[r.Intn(2)], addr: z, gas: 100000},
			{op: 'S'}}},
		&account{addr: x, nonce: 1, bal: uint64(r.Range(0, 5)), storage: map[uint64]uint64{}, body: []step{
			{op: 'D', addr: plainRich}}},
		&account{addr: z, nonce: 1, bal: uint64(r.Range(0, 9)), storage: map[uint64]uint64{}, body: []step{
			{op: 'D', addr: x}}})
	c.txs = append(c.txs, tx{origin: originA, to: y, gas: 300000})
	if r.Bool() {
		c.txs = append(c.txs, tx{origin: originA, to: x, gas: 100000, value: uint64(r.Intn(3))})
	} else {
		c.txs = append(c.txs, tx{origin: originA, to: y, gas: 300000})
	}
	return c
}

// deepCase: one contract that calls itself until the call-depth limit (1024) stops it; the frames then unwind
// through whatever the body does after the call (stop, revert, invalid, self-destruct).
func deepCase(r *vh.RNG, idx int) *testCase {
	c := &testCase{deep: true}
	self := addrN(0xc100)
	var body []step
	kind := []string{"c", "cc", "d", "s", "c"}[idx%5] // every call kind reaches the limit in every run
	if r.Chance(40) && kind != "s" {
		body = append(body, step{op: 'W', k: 1, v: uint64(r.Range(0, 2))})
	}
	call := step{op: 'C', kind: kind, addr: self, gas: 100000000000000}
	if (call.kind == "c" || call.kind == "cc") && r.Chance(40) {
		call.value = 1
	}
	body = append(body, call)
	if r.Chance(40) && kind != "s" {
		body = append(body, step{op: 'L', topics: []uint64{7}})
	}
	g := &genCtx{r: r, pool: []common.Address{self}}
	end := g.ending(0)
	if kind == "s" && end.op == 'D' {
		end = step{op: 'S'}
	}
	if end.op == 'R' || end.op == 'V' {
		end.zeros, end.data = 0, nil
	}
	body = append(body, end)
	c.accts = append(c.accts,
		&account{addr: originA, bal: 1000000000, storage: map[uint64]uint64{}},
		&account{addr: plainRich, nonce: 1, bal: 777, storage: map[uint64]uint64{}},
		&account{addr: self, nonce: 1, bal: uint64(r.Range(0, 3)), storage: map[uint64]uint64{}, body: body})
	c.extra = []common.Address{ghostA, ghostB}
	c.txs = append(c.txs, tx{origin: originA, to: plainRich, gas: 30000, value: 1},
		tx{origin: originA, to: self, gas: 10000000000000 * uint64(r.Range(1, 3))})
	return c
}

// restoreCase: storage written by an earlier transaction of the block, then, in a later transaction, a surviving
// frame writes the slot back to its pre-block (trie) value and a nested frame that shares the storage context
// (DELEGATECALL / CALLCODE, possibly two levels) writes the same slot and fails. The slot must keep the pre-block
// value; the committed/pending/dirty layers of the state object make this a separate code path from the
// single-transaction case.
func restoreCase(r *vh.RNG) *testCase {
	c := &testCase{}
	a, l1, l2 := addrN(0xc100), addrN(0xc101), addrN(0xc102)
	k := uint64(r.Range(1, 3))
	v0 := uint64(r.Weighted([]int{50, 20, 15, 15})) // pre-block value: absent (0) or prefilled
	v1 := v0 + uint64(r.Range(1, 4))
	pool := []uint64{0, v0, v1, 9}
	pick := func() uint64 { return pool[r.Intn(len(pool))] }
	failing := func() step {
		switch r.Intn(4) {
		case 0:
			return step{op: 'I', n: uint64(r.Intn(4))}
		case 1:
			return step{op: 'S'} // succeeds: the write survives (control)
		default:
			return step{op: 'V'}
		}
	}
	kind := func() string { return []string{"d", "cc"}[r.Intn(2)] }
	gas := func() uint64 {
		if r.Chance(20) {
			return uint64(r.Range(2400, 25000)) // may run out inside the nested frame, before or after its write
		}
		return 200000
	}
	acct := func(ad common.Address, body []step) *account {
		return &account{addr: ad, nonce: 1, bal: uint64(r.Intn(20)), storage: map[uint64]uint64{}, body: body}
	}
	inner := []step{{op: 'W', k: k, v: pick()}}
	if r.Chance(30) {
		inner = append(inner, step{op: 'W', k: k, v: pick()})
	}
	inner = append(inner, failing())
	var mid []step
	twoLevels := r.Chance(35)
	if twoLevels {
		if r.Chance(50) {
			mid = append(mid, step{op: 'W', k: k, v: pick()})
		}
		mid = append(mid, step{op: 'C', kind: kind(), addr: l2, gas: gas()}, failing())
	}
	var body []step
	if r.Chance(85) {
		body = append(body, step{op: 'W', k: k, v: v0}) // back to the pre-block value
	} else {
		body = append(body, step{op: 'W', k: k, v: pick()})
	}
	if twoLevels {
		body = append(body, step{op: 'C', kind: kind(), addr: l1, gas: gas()})
	} else {
		body = append(body, step{op: 'C', kind: kind(), addr: l2, gas: gas()})
	}
	if r.Chance(25) {
		body = append(body, step{op: 'C', kind: kind(), addr: l2, gas: gas()})
	}
	if r.Chance(85) {
		body = append(body, step{op: 'W', k: k, v: v1}) // what the next transaction finds pending
	}
	body = append(body, []step{{op: 'S'}, {op: 'S'}, {op: 'S'}, {op: 'V'}}[r.Intn(4)])
	ca := acct(a, body)
	if v0 != 0 {
		ca.storage[k] = v0
	}
	c.accts = append(c.accts,
		&account{addr: originA, bal: 1000000000, storage: map[uint64]uint64{}},
		&account{addr: plainRich, nonce: 1, bal: 777, storage: map[uint64]uint64{}},
		ca, acct(l1, mid), acct(l2, inner))
	if mid == nil {
		c.accts[3].body = []step{{op: 'S'}}
	}
	c.extra = []common.Address{ghostA, ghostB}
	for n := r.Range(2, 3); n > 0; n-- {
		c.txs = append(c.txs, tx{origin: originA, to: a, gas: uint64([]int{90000, 300000, 1000000}[r.Intn(3)])})
	}
	return c
}

// logCase: the first log of a transaction is emitted inside a frame that fails; a surviving frame logs afterwards and
// the next transaction logs too. Logs, their block-wide Index and the state's log counter after the failed frame
// must be what they were before it.
func logCase(r *vh.RNG) *testCase {
	c := &testCase{}
	a, l1, l2 := addrN(0xc100), addrN(0xc101), addrN(0xc102)
	lg := func() step {
		s := step{op: 'L'}
		for k := r.Intn(3); k > 0; k-- {
			s.topics = append(s.topics, uint64(r.Range(1, 99)))
		}
		return s
	}
	fail := func() step {
		switch r.Intn(5) {
		case 0:
			return step{op: 'I', n: uint64(r.Intn(4))}
		case 1:
			return step{op: 'S'} // control: the log survives
		default:
			return step{op: 'V'}
		}
	}
	kind := func() string { return []string{"c", "cc", "d"}[r.Intn(3)] }
	inner := []step{lg()}
	if r.Chance(30) {
		inner = append(inner, lg())
	}
	inner = append(inner, fail())
	var mid []step
	if r.Chance(30) {
		mid = append(mid, lg())
	}
	mid = append(mid, step{op: 'C', kind: kind(), addr: l2, gas: 200000}, fail())
	var body []step
	if r.Chance(15) {
		body = append(body, lg()) // then the undone log is not the first one
	}
	for n := r.Range(1, 2); n > 0; n-- {
		t := l2
		if r.Chance(35) {
			t = l1
		}
		g := uint64(200000)
		if r.Chance(15) {
			g = uint64(r.Range(300, 3000)) // runs out around the LOG
		}
		body = append(body, step{op: 'C', kind: kind(), addr: t, gas: g})
	}
	if r.Chance(85) {
		body = append(body, lg())
	}
	body = append(body, []step{{op: 'S'}, {op: 'S'}, {op: 'S'}, {op: 'V'}}[r.Intn(4)])
	acct := func(ad common.Address, b []step) *account {
		return &account{addr: ad, nonce: 1, bal: uint64(r.Intn(20)), storage: map[uint64]uint64{}, body: b}
	}
	c.accts = append(c.accts,
		&account{addr: originA, bal: 1000000000, storage: map[uint64]uint64{}},
		&account{addr: plainRich, nonce: 1, bal: 777, storage: map[uint64]uint64{}},
		acct(a, body), acct(l1, mid), acct(l2, inner))
	c.extra = []common.Address{ghostA, ghostB}
	for n := r.Range(2, 3); n > 0; n-- {
		to := a
		if r.Chance(20) {
			to = l1
		}
		c.txs = append(c.txs, tx{origin: originA, to: to, gas: uint64([]int{90000, 300000, 1000000}[r.Intn(3)])})
	}
	return c
}
