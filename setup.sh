#!/bin/bash
# Build the framework from files on disk only (offline): Lean library, theorem modules, drivers, Go harnesses.
set -e
cd "$(dirname "$0")"
export GOFLAGS=-mod=mod GOPROXY=off GOSUMDB=off GOTOOLCHAIN=local
mkdir -p .build/bin replays evidence
cp /repo/go.sum go/go.sum
targets=$(python3 - <<'PY'
import json,glob
t=[]
for p in sorted(glob.glob('props/C*.json')):
    c=json.load(open(p))
    if c.get('disabled'): continue
    if c.get('driver'): t.append(c['driver'])
    t += c.get('lake_targets') or ([c['props_module']] if c.get('props_module') else [])
print(' '.join(dict.fromkeys(t)))
PY
)
# generated sources are committed as snapshots, so the Lean side builds before any harness has run
(cd lean && lake build YouVerif $targets)
(cd go && go build -tags verif -o ../.build/bin/ ./cmd/...)
echo "setup ok"
