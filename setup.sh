#!/bin/bash
# Build the framework from files on disk only (offline): Lean library, theorem modules, drivers, Go harnesses.
# Only properties claimed in MANIFEST.json are built (work in progress for others may sit in the tree).
set -e
cd "$(dirname "$0")"
export GOFLAGS=-mod=mod GOPROXY=off GOSUMDB=off GOTOOLCHAIN=local
mkdir -p .build/bin replays evidence
cp /repo/go.sum go/go.sum
eval "$(python3 - <<'PY'
import json
m=json.load(open('MANIFEST.json'))
ids=[c['property_id'] for c in m['checks']]
t=[];h=[]
for i in ids:
    c=json.load(open('props/%s.json'%i))
    if c.get('driver'): t.append(c['driver'])
    t += c.get('lake_targets') or ([c['props_module']] if c.get('props_module') else [])
    if c.get('harness'): h.append('./cmd/'+c['harness'])
print('targets="%s"; harnesses="%s"' % (' '.join(dict.fromkeys(t)), ' '.join(dict.fromkeys(h))))
PY
)"
# generated sources are committed as snapshots, so the Lean side builds before any harness has run
(cd lean && lake build YouVerif $targets)
if [ -n "$harnesses" ]; then (cd go && go build -tags verif -o ../.build/bin/ $harnesses); fi
echo "setup ok"
